"""Driver for the solver-based checks: runs gosym on the harness sets of a property,
aggregates obligations, applies the known-findings protocol, replays counterexamples and
writes the evidence file."""
import hashlib
import json
import os
import re
import subprocess
import sys
import time

VERIF = os.path.dirname(os.path.dirname(os.path.abspath(__file__)))
REPO = os.environ.get("VERIF_REPO", "/repo")
ENGINE = os.path.join(VERIF, "engine")
GOSYM = os.path.join(ENGINE, "bin", "gosym")
CACHE = os.path.join(VERIF, ".cache")
EVID = os.environ.get("VERIF_EVIDENCE_DIR") or os.path.join(VERIF, "evidence")
GOENV = dict(os.environ, GOFLAGS="-mod=mod", GOPROXY="off", GOSUMDB="off", GOTOOLCHAIN="local")


def sh(cmd, **kw):
    return subprocess.run(cmd, shell=isinstance(cmd, str), env=GOENV, **kw)


def build_engine():
    """(Re)build gosym unless the binary was built from exactly the present engine sources
    (content hash kept next to the binary; the binary is never committed)."""
    h = hashlib.sha256()
    for root, dirs, files in os.walk(ENGINE):
        dirs.sort()
        if "/bin" in root:
            continue
        for f in sorted(files):
            if f.endswith(".go") or f in ("go.mod", "go.sum"):
                p = os.path.join(root, f)
                h.update(p.encode())
                with open(p, "rb") as fh:
                    h.update(fh.read())
    want = h.hexdigest()
    stamp = GOSYM + ".stamp"
    if os.path.exists(GOSYM) and os.path.exists(stamp) and open(stamp).read().strip() == want:
        return
    os.makedirs(os.path.join(ENGINE, "bin"), exist_ok=True)
    r = sh(["go", "build", "-o", GOSYM, "./cmd/gosym"], cwd=ENGINE, capture_output=True, text=True)
    if r.returncode != 0:
        sys.stderr.write(r.stdout + r.stderr)
        raise SystemExit(3)
    with open(stamp, "w") as fh:
        fh.write(want)


_tree_hash = {}


def tree_hash(module=None):
    """Content hash of everything a verdict can depend on: /repo sources (non-test .go,
    go.mod/go.sum, proto), harness sources and the engine binary. With a module, only what
    that module's runs can depend on (the shared modules types and api, the proto files, the
    module itself and its harnesses)."""
    if module in _tree_hash:
        return _tree_hash[module]
    h = hashlib.sha256()
    if module is None:
        roots = [os.path.join(REPO, d) for d in ("types", "api", "x", "proto")]
        roots += [os.path.join(VERIF, "harness")]
    else:
        mod = MODULES[module]
        dirs = ["types", "api", "proto"]
        if mod["dir"] not in dirs:
            dirs.append(mod["dir"])
        roots = [os.path.join(REPO, d) for d in dirs]
        roots += [os.path.join(VERIF, "harness", mod["harness"]), os.path.join(VERIF, "harness", "zzverif")]
    for root in roots:
        for dirpath, dirnames, files in os.walk(root):
            dirnames.sort()
            if "/node_modules" in dirpath or "/.git" in dirpath:
                continue
            for f in sorted(files):
                if f.endswith("_test.go"):
                    continue
                if f.endswith((".go", ".proto", ".mod", ".sum", ".feature")):
                    p = os.path.join(dirpath, f)
                    h.update(p.encode())
                    with open(p, "rb") as fh:
                        h.update(hashlib.sha256(fh.read()).digest())
    with open(GOSYM, "rb") as fh:
        h.update(hashlib.sha256(fh.read()).digest())
    _tree_hash[module] = h.hexdigest()
    return _tree_hash[module]


MODULES = {
    "types": {"dir": "types", "zz": "types/zzverif", "harness": "types"},
    "ecocredit": {"dir": "x/ecocredit", "zz": "x/ecocredit/zzverif", "harness": "x/ecocredit"},
    "data": {"dir": "x/data", "zz": "x/data/zzverif", "harness": "x/data"},
    "intertx": {"dir": "x/intertx", "zz": "x/intertx/zzverif", "harness": "x/intertx"},
}


def run_gosym(run, tier, use_cache=True, workers=16):
    """run: dict(module, pkg, harness, bounds{tier:{}}, timeout_ms, loop)."""
    mod = MODULES[run["module"]]
    bounds = dict(run.get("bounds", {}).get("all", {}))
    bounds.update(run.get("bounds", {}).get(tier, {}))
    bstr = ",".join("%s=%d" % kv for kv in sorted(bounds.items()))
    timeout_ms = run.get("timeout_ms", {}).get(tier, 20000 if tier == "quick" else 60000)
    harness = run["harness"][tier] if isinstance(run["harness"], dict) else run["harness"]
    path_budget = 180 if tier == "quick" else 900
    # whole-run budget: what is not explored when it runs out is reported as inconclusive
    run_budget = run.get("budget_s", {}).get(tier, 1200 if tier == "quick" else 7200)
    key = hashlib.sha256(json.dumps([tree_hash(run["module"]), run["module"], run["pkg"], harness, bstr, timeout_ms,
                                     run.get("loop", 64), path_budget]).encode()).hexdigest()[:24]
    os.makedirs(CACHE, exist_ok=True)
    cpath = os.path.join(CACHE, key + ".json")
    if use_cache and os.path.exists(cpath):
        with open(cpath) as fh:
            out = json.load(fh)
        out["reused"] = True
        return out
    overlay = "%s=%s,%s=%s" % (os.path.join(VERIF, "harness", mod["harness"]), os.path.join(REPO, mod["dir"]),
                               os.path.join(VERIF, "harness", "zzverif"), os.path.join(REPO, mod["zz"]))
    tmp = cpath + ".tmp%d" % os.getpid()
    cmd = [GOSYM, "-dir", os.path.join(REPO, mod["dir"]), "-pkg", run["pkg"], "-overlay", overlay,
           "-run", harness, "-out", tmp, "-bounds", bstr, "-timeout-ms", str(timeout_ms),
           "-workers", str(workers), "-loop", str(run.get("loop", 64)), "-full-models",
           "-path-budget-s", str(path_budget), "-budget-s", str(run_budget)]
    t0 = time.time()
    r = sh(cmd, capture_output=True, text=True)
    if not os.path.exists(tmp):
        return {"error": "gosym failed: " + (r.stderr or r.stdout)[-4000:], "harnesses": [], "cmd": " ".join(cmd)}
    with open(tmp) as fh:
        out = json.load(fh)
    os.remove(tmp)
    out["harnesses"] = out.get("harnesses") or []
    out["cmd"] = " ".join(cmd)
    out["ran_at"] = time.strftime("%Y-%m-%dT%H:%M:%SZ", time.gmtime())
    out["run_wall_s"] = time.time() - t0
    out["stderr_tail"] = r.stderr[-2000:]
    # only conclusive runs are memoised: a solver timeout (machine load) is retried next time
    shaky = any(hh.get("inconclusive") or any(int(ob.get("unknown", 0)) for ob in hh.get("obligations", {}).values())
                for hh in out.get("harnesses", []))
    if not out.get("error") and not shaky:
        with open(cpath, "w") as fh:
            json.dump(out, fh)
    out["reused"] = False
    return out


SERVICE_PREFIX = {"./base/keeper": ("x/ecocredit/base/types/v1/tx.pb.go", ""),
                  "./basket/keeper": ("x/ecocredit/basket/types/v1/tx.pb.go", "Basket"),
                  "./marketplace/keeper": ("x/ecocredit/marketplace/types/v1/tx.pb.go", "Market")}
# RPCs that the keeper does not implement (the embedded Unimplemented server rejects them
# without touching state); everything else in the MsgServer interface needs a harness
UNIMPLEMENTED = {"CreateUnregisteredProject", "CreateOrUpdateApplication", "UpdateProjectEnrollment", "UpdateProjectFee"}


def uncovered_handlers(run, out):
    """Every method of the service's MsgServer interface (read from /repo's generated code
    on every run) must have a VerifHarness_Step_<prefix><Method> when the run is the full
    step set."""
    if run["pkg"] not in SERVICE_PREFIX:
        return []
    h = run["harness"]
    if isinstance(h, dict) or not (h == "Step_.*" or run.get("full_service")):
        return []
    path, prefix = SERVICE_PREFIX[run["pkg"]]
    try:
        src = open(os.path.join(REPO, path)).read()
    except OSError:
        return ["cannot read " + path]
    m = re.search(r"type MsgServer interface \{(.*?)\n\}", src, re.S)
    if not m:
        return ["MsgServer interface not found in " + path]
    methods = re.findall(r"^\s*([A-Z]\w*)\(context\.Context", m.group(1), re.M)
    have = {hh["name"] for hh in out["harnesses"]}
    return [mm for mm in methods if "VerifHarness_Step_%s%s" % (prefix, mm) not in have and mm not in UNIMPLEMENTED]


def load_known():
    p = os.path.join(VERIF, "known_findings.json")
    if not os.path.exists(p):
        return []
    with open(p) as fh:
        return json.load(fh).get("findings", [])


def check_property(pid, spec, tier, seed, use_cache=True):
    t0 = time.time()
    build_engine()
    prefix = spec.get("prefix", pid)
    known = [k for k in load_known() if k["property"] == pid and k.get("status", "open") == "open"]
    cov = {"states": 0, "transitions": 0, "traces_validated_against_impl": 0, "samples": [],
           "obligations": 0, "discharged": 0, "inconclusive": 0, "harnesses": [], "functions_encoded": {},
           "summaries_used": {}, "assumes": {}, "bounds": {}, "queries": {}, "solver_time_s": 0.0,
           "max_query_s": 0.0, "load_s": 0.0, "runs": 0, "memo_note": "",
           "source_tree_sha256": tree_hash(), "known_findings_matched": [], "vacuity_witnesses": 0}
    violations = []   # (harness, obligation, first_sat)
    knowns_hit = {}
    inconclusive = []
    only = os.environ.get("VERIF_ONLY_PKG")
    memo_hits = []
    for run in spec["runs"]:
        if only and not re.search(only, run["pkg"]):
            continue
        if tier not in run.get("tiers", [tier]):
            continue
        prefix = run.get("prefix", spec.get("prefix", pid))
        out = run_gosym(run, tier, use_cache)
        if out.get("error"):
            inconclusive.append("engine: " + out["error"][:1500])
            continue
        cov["load_s"] += out.get("load_s", 0)
        cov["runs"] += 1
        if out.get("reused"):
            memo_hits.append(run["pkg"])
        for k, v in (out.get("config", {}).get("Bounds") or {}).items():
            cov["bounds"][k] = v
        if not out["harnesses"]:
            inconclusive.append("no harness matched %s in %s" % (run["harness"], run["pkg"]))
        for missing in uncovered_handlers(run, out):
            inconclusive.append("uncovered handler: %s has no step harness in %s" % (missing, run["pkg"]))
        for h in out["harnesses"]:
            mine = {n: o for n, o in h["obligations"].items()
                    if n.startswith(prefix + " ") or n.startswith(prefix + ":") or prefix == "*"
                    or (n.startswith("reach:") and True)}
            relevant = [n for n in mine if not n.startswith("reach:")]
            if not relevant and not spec.get("all_obligations"):
                # a harness that reached no obligation at all (every path ended early) decides
                # nothing for anybody: that is inconclusive for every property using the run,
                # never a silent pass
                anyob = [n for n in h["obligations"] if not n.startswith("reach:")]
                named = ("_" + prefix + "_") in h["name"]
                if anyob and not named:
                    continue
                inconclusive.append("%s: no obligation of %s was reached (statuses %s)" % (h["name"], prefix, h["status"]))
                for ic in h.get("inconclusive", []) or []:
                    inconclusive.append("%s: %s: %s" % (h["name"], ic["status"], ic["msg"][:300]))
                continue
            if spec.get("all_obligations"):
                mine = h["obligations"]
            cov["states"] += h["paths"]
            cov["transitions"] += h["status"].get("ok", 0)
            cov["solver_time_s"] += h.get("solver_time_s", 0)
            cov["max_query_s"] = max(cov["max_query_s"], h.get("max_query_s", 0))
            for k, v in h.get("queries", {}).items():
                cov["queries"][k] = cov["queries"].get(k, 0) + v
            for k, v in h.get("functions_encoded", {}).items():
                if "zzverif" in k or "VerifHarness" in k or "zzinv" in k:
                    continue
                cov["functions_encoded"][k] = cov["functions_encoded"].get(k, 0) + v
            for k, v in h.get("summaries_used", {}).items():
                cov["summaries_used"][k] = cov["summaries_used"].get(k, 0) + v
            for k, v in h.get("assumes", {}).items():
                cov["assumes"][k] = cov["assumes"].get(k, 0) + v
            hrec = {"harness": h["name"], "paths": h["paths"], "status": h["status"], "wall_s": round(h["wall_s"], 2),
                    "obligations": {}}
            reach_sat = 0
            for n, o in sorted(mine.items()):
                if n.startswith("reach:"):
                    reach_sat += o["sat"]
                    continue
                cov["obligations"] += o["paths"]
                cov["discharged"] += o["unsat"]
                cov["inconclusive"] += o["unknown"]
                hrec["obligations"][n] = {"paths": o["paths"], "unsat": o["unsat"], "sat": o["sat"], "unknown": o["unknown"]}
                if o["unknown"]:
                    inconclusive.append("%s: %s: %d unknown" % (h["name"], n, o["unknown"]))
                if o["sat"]:
                    kf = match_known(known, h["name"], n, o.get("first_sat"))
                    if kf:
                        knowns_hit.setdefault(kf["id"], (kf, h["name"], n, o.get("first_sat")))
                    else:
                        violations.append((h["name"], n, o.get("first_sat")))
            cov["vacuity_witnesses"] += reach_sat
            if reach_sat == 0 and not spec.get("no_reach"):
                inconclusive.append("%s: vacuous (no reachability witness is satisfiable)" % h["name"])
            for ic in h.get("inconclusive", []) or []:
                inconclusive.append("%s: %s: %s" % (h["name"], ic["status"], ic["msg"][:300]))
            for pn in h.get("panics", []) or []:
                if not spec.get("panics_ok"):
                    inconclusive.append("%s: uncaught panic: %s" % (h["name"], pn["msg"][:200]))
            if h.get("feasibility_unknown"):
                hrec["feasibility_unknown"] = h["feasibility_unknown"]
            cov["harnesses"].append(hrec)
            if len(cov["samples"]) < 6:
                for n, o in sorted(mine.items()):
                    if not n.startswith("reach:") and len(cov["samples"]) < 6:
                        cov["samples"].append({"harness": h["name"], "obligation": n, "paths": o["paths"],
                                               "verdicts": {"unsat": o["unsat"], "sat": o["sat"], "unknown": o["unknown"]},
                                               "solvers": o.get("by_solver")})
                        break
    # trim function list for the evidence file
    fe = cov["functions_encoded"]
    cov["functions_encoded_count"] = len(fe)
    cov["functions_encoded"] = dict(sorted(fe.items(), key=lambda kv: -kv[1])[:60])
    # the verdicts of a memoised run were computed by the engine in this working copy on inputs
    # with the same content hash; the coverage reported is that of the run either way
    cov["memo_note"] = ("runs taken from this working copy's memo (identical content hash of /repo sources, harnesses and engine): "
                        + ", ".join(memo_hits)) if memo_hits else "every run executed in this invocation"
    return cov, violations, knowns_hit, inconclusive, time.time() - t0


def match_known(known, harness, obligation, first_sat):
    for k in known:
        m = k.get("match", {})
        if "harness" in m and not re.search(m["harness"], harness):
            continue
        if "obligation" in m and not re.search(m["obligation"], obligation):
            continue
        return k
    return None


def write_cex(pid, idx, harness, obligation, first_sat, run_hint):
    os.makedirs(os.path.join(EVID, "cex"), exist_ok=True)
    p = os.path.join(EVID, "cex", "%s-%d.json" % (pid, idx))
    with open(p, "w") as fh:
        json.dump({"property": pid, "harness": harness, "obligation": obligation, "bounds": run_hint,
                   "model": (first_sat or {}).get("Model"), "full_model": (first_sat or {}).get("Full"),
                   "path": (first_sat or {}).get("Path"), "solver": (first_sat or {}).get("Solver"),
                   "negated_obligation": (first_sat or {}).get("Detail")}, fh, indent=1)
    return p
