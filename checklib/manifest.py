"""Regenerates /verif/MANIFEST.json from the registry (python3 -m checklib.manifest)."""
import json
import os

from .props import PROPS, NOT_APPLICABLE, LEVEL_TEXT

VERIF = os.path.dirname(os.path.dirname(os.path.abspath(__file__)))


def main():
    ids = [json.loads(l)["id"] for l in open(os.path.join(VERIF, "properties.jsonl"))]
    checks = []
    na = []
    for pid in ids:
        if pid in PROPS:
            spec = PROPS[pid]
            checks.append({
                "property_id": pid,
                "quick_cmd": "./check %s --tier quick" % pid,
                "thorough_cmd": "./check %s --tier thorough" % pid,
                "evidence_file": "/verif/evidence/%s.json" % pid,
                "replay_cmd_template": "./check %s --replay {path}" % pid,
                "engine": "gosym",
                "level_claimed": {"category": "model_checking",
                                  "text": spec.get("claim", LEVEL_TEXT),
                                  "design_ref": spec.get("design_ref", "DESIGN.md section 6 (%s) as designed, section 11 as built" % pid)},
                "level_note": spec.get("note", "Trusted: go/ssa, the engine, z3/cvc5, and the environment models and library summaries of DESIGN.md section 3; bounds as written to the evidence file."),
                "technique": spec.get("technique", "go/ssa symbolic execution + SMT"),
            })
        else:
            na.append({"property_id": pid, "reason": NOT_APPLICABLE.get(pid, "check not built yet in this session; no claim is made")})
    m = {
        "version": 1,
        "setup_cmd": "./setup.sh",
        "hooks": {"guard": "verif", "enable": "harnesses are injected as overlay files carrying //go:build verif (go/packages Overlay for the engine, go test -overlay -tags verif for replay); /repo itself is not modified",
                  "baseline_off_cmd": "cd /repo && for m in . api types x/data x/ecocredit x/intertx; do (cd $m && go test -vet=off -count=1 ./...); done",
                  "source_commits": [], "add_only": True},
        "engines": [{"name": "gosym", "path": "/verif/engine", "serves_properties": sorted(PROPS.keys()),
                     "kind_free_text": "path-wise symbolic executor for go/ssa (x/tools v0.29.0) emitting SMT-LIB2 to z3 4.8.12 / z3 5.1.0 / cvc5 1.0"}],
        "checks": checks,
        "not_applicable": na,
        "notes": "Every check regenerates its encoding from /repo's current working tree (go/packages + go/ssa on each run; results are memoised only under a content hash of all sources, harnesses and the engine).",
    }
    with open(os.path.join(VERIF, "MANIFEST.json"), "w") as fh:
        json.dump(m, fh, indent=1)
        fh.write("\n")


if __name__ == "__main__":
    main()
