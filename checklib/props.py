"""Registry: which harness runs decide which property, with the bounds of each tier."""

DEC_BOUNDS = {"quick": {"digits": 45, "exp_lo": -12, "exp_hi": 12},
              "thorough": {"digits": 60, "exp_lo": -30, "exp_hi": 40}}

STEP_BOUNDS = {"quick": {"list": 1, "iter": 1, "exp_lo": -12, "exp_hi": 12, "digits": 45},
               "thorough": {"list": 2, "iter": 2, "exp_lo": -30, "exp_hi": 40, "digits": 60}}


def step_runs():
    return [
        {"module": "ecocredit", "pkg": "./base/keeper", "harness": "Step_.*", "bounds": STEP_BOUNDS},
    ]


PROPS = {
    "C19": {
        "title": "decimal arithmetic",
        "runs": [{"module": "types", "pkg": "./math", "harness": "C19_.*", "bounds": DEC_BOUNDS}],
        "all_obligations": True,
        "technique": "go/ssa symbolic execution of types/math over GDA summaries + SMT (z3/z3-new/cvc5)",
    },
    "C01": {"title": "credit conservation", "runs": step_runs(), "technique": "one-step inductive invariant, go/ssa symbolic execution + SMT"},
    "C02": {"title": "issuance accounting", "runs": step_runs(), "technique": "one-step inductive invariant, go/ssa symbolic execution + SMT"},
    "C03": {"title": "ownership safety", "runs": step_runs(), "technique": "one-step frame condition with skolem account, go/ssa symbolic execution + SMT"},
    "C04": {"title": "retirement permanence", "runs": step_runs(), "technique": "one-step monotonicity, go/ssa symbolic execution + SMT"},
}

LEVEL_TEXT = ("Bounded symbolic model checking of the real code: the harness and every regen-ledger function it reaches are "
              "executed from go/ssa with symbolic inputs; each assertion is decided by an SMT solver for all values within the "
              "stated bounds, on every feasible path; a satisfying assignment is replayed on the natively compiled code before "
              "it is reported.")

NOT_APPLICABLE = {}
