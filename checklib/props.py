"""Registry: which harness runs decide which property, with the bounds of each tier."""

DEC_BOUNDS = {"quick": {"digits": 45, "exp_lo": -12, "exp_hi": 12},
              "thorough": {"digits": 60, "exp_lo": -30, "exp_hi": 40}}

STEP_BOUNDS = {"all": {"round_abstract": 1},
               "quick": {"list": 1, "iter": 1, "exp_lo": -12, "exp_hi": 12, "digits": 45},
               "thorough": {"list": 2, "iter": 2, "exp_lo": -20, "exp_hi": 20, "digits": 60}}

HASH_BOUNDS = {"quick": {"hash_lo": 20, "hash_hi": 64, "hash_step": 22},
               "thorough": {"hash_lo": 20, "hash_hi": 64, "hash_step": 1}}


def step_runs():
    return [
        {"module": "ecocredit", "pkg": "./base/keeper", "harness": "Step_.*", "bounds": STEP_BOUNDS},
        {"module": "ecocredit", "pkg": "./basket/keeper", "harness": "Step_.*", "bounds": STEP_BOUNDS},
        {"module": "ecocredit", "pkg": "./marketplace/keeper", "harness": "Step_.*", "bounds": STEP_BOUNDS},
    ]


PROPS = {
    "C19": {
        "title": "decimal arithmetic",
        "runs": [{"module": "types", "pkg": "./math", "harness": "C19_.*", "bounds": DEC_BOUNDS}],
        "all_obligations": True,
        "technique": "go/ssa symbolic execution of types/math over GDA summaries + SMT (z3/z3-new/cvc5)",
    },
    "C15": {
        "title": "IRI <-> content hash bijection",
        "runs": [{"module": "data", "pkg": ".", "harness": "C15_.*", "bounds": HASH_BOUNDS}],
        "technique": "go/ssa symbolic execution of ToIRI/ParseIRI/Validate on symbolic bytes + SMT; base58check as an explicit injective encoding",
    },
    "C20": {
        "title": "intertx SubmitTx",
        "runs": [{"module": "intertx", "pkg": "./keeper", "harness": "C20_.*", "bounds": {}}],
        "technique": "go/ssa symbolic execution of SubmitTx against recording stubs with symbolic results + SMT",
    },
    "C01": {"title": "credit conservation", "runs": step_runs(), "technique": "one-step inductive invariant, go/ssa symbolic execution + SMT"},
    "C02": {"title": "issuance accounting", "runs": step_runs(), "technique": "one-step inductive invariant, go/ssa symbolic execution + SMT"},
    "C03": {"title": "ownership safety", "runs": step_runs(), "technique": "one-step frame condition with skolem account, go/ssa symbolic execution + SMT"},
    "C04": {"title": "retirement permanence", "runs": step_runs(), "technique": "one-step monotonicity, go/ssa symbolic execution + SMT"},
}

LEVEL_TEXT = ("Bounded symbolic model checking of the real code: the harness and every regen-ledger function it reaches are "
              "executed from go/ssa with symbolic inputs; each assertion is decided by an SMT solver for all values within the "
              "stated bounds, on every feasible path; a satisfying assignment is replayed on the natively compiled code before "
              "it is reported.")

NOT_APPLICABLE = {}
