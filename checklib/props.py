"""Registry: which harness runs decide which property, with the bounds of each tier.

A property is decided by every obligation whose name starts with its id, in every harness
of its runs. The step harnesses (one per message handler) carry the obligations of several
properties; their executions are shared between the properties through the content-hash
memoisation of the driver."""

# decimal kernels: coefficients up to `digits` digits, exponents exp_lo..exp_hi; products and
# quotients of two symbolic decimals are uninterpreted (mul_abstract: the obligations hold for
# every value they may take) with x/y exponents split into one path each
DEC_BOUNDS = {"all": {"mul_abstract": 1, "dec_coeff_form": 1, "reduce_exact": 1},
              "quick": {"digits": 45, "exp_lo": -12, "exp_hi": 12, "xexp_lo": -6, "xexp_hi": 2, "yexp_lo": -2, "yexp_hi": 1},
              "thorough": {"digits": 50, "exp_lo": -24, "exp_hi": 30, "xexp_lo": -12, "xexp_hi": 12, "yexp_lo": -6, "yexp_hi": 6}}

# handler-level runs: rounding results are modelled relationally and products of two
# symbolic decimals abstractly (round_abstract); the exact rounding/products are the subject
# of the C07/C18/C19 kernels
STEP_BOUNDS = {"all": {"round_abstract": 1},
               "quick": {"list": 1, "iter": 1, "exp_lo": -12, "exp_hi": 12, "digits": 45},
               "thorough": {"list": 2, "iter": 2, "exp_lo": -12, "exp_hi": 12, "digits": 45}}
# basket thorough: two credits per Put; Take stays at one drained balance plus one partial
# (iter=2 for Take did not finish within an hour and is not registered)
BASKET_BOUNDS = {"all": {"round_abstract": 1, "dec_coeff_form": 1},
                 "quick": {"list": 1, "iter": 1, "exp_lo": -12, "exp_hi": 12, "digits": 45},
                 "thorough": {"list": 2, "iter": 1, "exp_lo": -12, "exp_hi": 12, "digits": 45}}
# exponents of decimal strings -7..1: stored amounts have at most 6 places (credit type precision is
# locked to 6) and are rendered in plain notation; requests outside the window are outside these runs
BASKET_TWO_TAKE = {"all": {"round_abstract": 1, "dec_coeff_form": 1, "list": 1, "iter": 2, "exp_lo": -7, "exp_hi": 1, "digits": 45}}
BASKET_TWO_PUT = {"all": {"round_abstract": 1, "dec_coeff_form": 1, "list": 2, "iter": 1, "exp_lo": -7, "exp_hi": 1, "digits": 45}}
# the six message handlers of the basket service (the Two variants are registered separately)
BASKET_STEPS = "Step_Basket(Create|Put|Take|UpdateBasketFee|UpdateCurator|UpdateDateCriteria)$"
BASKET_BOUNDS_L1 = {"all": {"round_abstract": 1, "dec_coeff_form": 1, "list": 1, "iter": 1, "exp_lo": -12, "exp_hi": 12, "digits": 45}}
# ValidateGenesis on the table model: at most iter rows per table
GENESIS_BOUNDS = {"all": {"round_abstract": 1, "dec_coeff_form": 1, "list": 1, "exp_lo": -12, "exp_hi": 12, "digits": 45},
                  "quick": {"iter": 1}, "thorough": {"iter": 1}}
STEP_BOUNDS_L1 = {"all": {"round_abstract": 1, "list": 1, "iter": 1, "exp_lo": -12, "exp_hi": 12, "digits": 45}}
BUYTWO_BOUNDS = {"all": {"round_abstract": 1, "list": 2, "iter": 1, "exp_lo": -12, "exp_hi": 12, "digits": 45}}

# marketplace (without BuyDirect) is cheap enough for two orders / two expired orders per
# message in the quick tier: duplicate ids inside one message are in range
MARKET_BOUNDS = {"all": {"round_abstract": 1},
                 "quick": {"list": 2, "iter": 2, "exp_lo": -12, "exp_hi": 12, "digits": 45},
                 "thorough": {"list": 2, "iter": 2, "exp_lo": -12, "exp_hi": 12, "digits": 45}}

HASH_BOUNDS = {"quick": {"hash_lo": 20, "hash_hi": 64, "hash_step": 22},
               "thorough": {"hash_lo": 20, "hash_hi": 64, "hash_step": 1}}

ID_BOUNDS = {"quick": {"seq_digits": 5, "denom_lo": 27, "denom_hi": 30},
             "thorough": {"seq_digits": 8, "denom_lo": 26, "denom_hi": 31}}

# data module: list = content hashes per message, iter = probes of the id table per content
# hash (collision chains of iter-1 occupied slots)
DATA_BOUNDS = {"quick": {"list": 2, "iter": 3}, "thorough": {"list": 3, "iter": 4}}

# cost/fee kernels: products of two symbolic decimals are uninterpreted (mul_abstract) with the
# bound "q < 10^qty_digits and ask < 10^ask_digits => q*ask < 10^(sum)" stated in the harness;
# ask_digits + qty_digits + 6 + (-exp_lo) <= 34 keeps every product inside decimal128, which is
# the region the exactness obligations are about (outside it: known finding F5)
COST_BOUNDS = {"all": {"mul_abstract": 1},
               "quick": {"ask_digits": 12, "qty_digits": 8, "exp_lo": -8, "exp_hi": 4},
               "thorough": {"ask_digits": 14, "qty_digits": 8, "exp_lo": -6, "exp_hi": 6}}
# the rounding region itself is explored with real products (the solver finds the witness)
ROUNDING_BOUNDS = {"quick": {"exp_lo": -8, "exp_hi": 4}, "thorough": {"exp_lo": -8, "exp_hi": 4}}
QUERY_BOUNDS = {"all": {"round_abstract": 1}, "quick": {"iter": 2, "list": 1}, "thorough": {"iter": 3, "list": 1}}
QUERY_BOUNDS_BASKET = {"all": {"round_abstract": 1, "dec_coeff_form": 1}, "quick": {"iter": 2, "list": 1}, "thorough": {"iter": 3, "list": 1}}

# the step harnesses that are cheap enough for the quick tier
QUICK_MARKET = "Step_Market(Sell|UpdateSellOrders|CancelSellOrder|AddAllowedDenom|RemoveAllowedDenom|GovSetFeeParams|GovSendFromFeePool|PruneSellOrders)"


# base-keeper handlers that are cheap enough for two list elements (two credits / issuances /
# issuers per message: duplicates inside one message are in range) in the quick tier; Send
# and MintBatchCredits take minutes at list=2 and are left to the thorough tier
QUICK_BASE_L2 = "Step_(Bridge|BridgeReceive|Cancel|Retire|CreateClass|CreateProject|CreateBatch|UpdateClassIssuers)"
STEP_BOUNDS_L2 = {"all": {"round_abstract": 1},
                  "quick": {"list": 2, "iter": 2, "exp_lo": -12, "exp_hi": 12, "digits": 45}}


def step_runs(quick_extra=()):
    """quick_extra: two-row variants that this property's quick tier runs as well ("put2": a Put of
    two credits, "buy2": a BuyDirect of two orders, both with the light obligation set); the
    thorough tier of every property runs all of them."""
    return _step_runs(quick_extra)


def _step_runs(quick_extra):
    put2_tiers = ["quick", "thorough"] if "put2" in quick_extra else ["thorough"]
    buy2 = [{"module": "ecocredit", "pkg": "./marketplace/keeper", "harness": "Step_MarketBuyDirectTwoLight", "bounds": BUYTWO_BOUNDS,
             "tiers": ["quick"], "timeout_ms": {"quick": 60000}, "budget_s": {"quick": 3000}}] if "buy2" in quick_extra else []
    return buy2 + [
        {"module": "ecocredit", "pkg": "./base/keeper", "harness": "Step_.*", "bounds": STEP_BOUNDS},
        {"module": "ecocredit", "pkg": "./base/keeper", "harness": QUICK_BASE_L2, "bounds": STEP_BOUNDS_L2, "tiers": ["quick"]},
        {"module": "ecocredit", "pkg": "./basket/keeper", "harness": BASKET_STEPS, "full_service": True, "bounds": BASKET_BOUNDS,
         "timeout_ms": {"quick": 20000, "thorough": 60000}},
        # two-row variants with the light obligation set (C01/C04/C05/C06/C11): a Take that spans two
        # basket balances (needs iter=2: a basket with two balances) and a Put of exactly two credits;
        # about 20 and 12 minutes, thorough tier only
        {"module": "ecocredit", "pkg": "./basket/keeper", "harness": "Step_BasketTakeTwo$", "bounds": BASKET_TWO_TAKE, "tiers": ["thorough"],
         "timeout_ms": {"thorough": 60000}, "budget_s": {"thorough": 5400}},
        {"module": "ecocredit", "pkg": "./basket/keeper", "harness": "Step_BasketPutTwo$", "bounds": BASKET_TWO_PUT, "tiers": put2_tiers,
         "timeout_ms": {"quick": 60000, "thorough": 60000}, "budget_s": {"quick": 3000, "thorough": 5400}},
        # marketplace: everything but BuyDirect with two list elements / two iterator rows in both
        # tiers; BuyDirect (20 minutes) with one entry, and with two entries in the fee-less,
        # moderate-price configuration (BuyDirectTwo), in the thorough tier only
        {"module": "ecocredit", "pkg": "./marketplace/keeper", "harness": QUICK_MARKET, "bounds": MARKET_BOUNDS},
        {"module": "ecocredit", "pkg": "./marketplace/keeper", "harness": "Step_MarketBuyDirect", "bounds": STEP_BOUNDS_L1, "tiers": ["thorough"],
         "budget_s": {"thorough": 5400}},
        {"module": "ecocredit", "pkg": "./marketplace/keeper", "harness": "Step_MarketBuyDirectTwo", "bounds": BUYTWO_BOUNDS, "tiers": ["thorough"],
         "budget_s": {"thorough": 5400}},
    ]


def kernel_cost():
    return {"module": "ecocredit", "pkg": "./marketplace/keeper", "harness": "(C07_CostKernel|C18_FeeParamsUse)", "bounds": COST_BOUNDS,
            "timeout_ms": {"quick": 60000, "thorough": 120000}}


def kernel_rounding():
    return {"module": "ecocredit", "pkg": "./marketplace/keeper", "harness": "C07_SubtotalRounding", "bounds": ROUNDING_BOUNDS,
            "timeout_ms": {"quick": 60000, "thorough": 120000}}


def data_step_run():
    # the four data-module step harnesses (they carry C16, C08 and C09 obligations)
    return {"module": "data", "pkg": "./server", "harness": "C16_.*", "bounds": DATA_BOUNDS}


STEP_TECH = "one-step inductive invariant over all message handlers: go/ssa symbolic execution of the real handlers on model stores with arbitrary pre-state + SMT (z3 5.1 / z3 4.8 / cvc5)"

PROPS = {
    "C01": {"title": "credit conservation", "runs": step_runs(), "technique": STEP_TECH},
    "C02": {"title": "issuance accounting", "runs": step_runs(), "technique": STEP_TECH},
    "C03": {"title": "ownership safety", "runs": step_runs(("buy2",)), "technique": STEP_TECH + "; frame condition for a skolem non-signer account"},
    "C04": {"title": "retirement permanence", "runs": step_runs(), "technique": STEP_TECH + "; monotonicity per step"},
    "C05": {"title": "basket tokens fully backed", "runs": step_runs(("put2",)), "technique": STEP_TECH},
    "C06": {"title": "escrow equals open sell orders", "runs": step_runs(("buy2",)), "technique": STEP_TECH},
    "C07": {"title": "BuyDirect settles exactly", "runs": [kernel_cost(), kernel_rounding()] + step_runs(("buy2",)),
            "technique": "go/ssa symbolic execution of the cost/fee kernel against exact rationals + SMT (non-linear real/integer arithmetic), plus the BuyDirect step harness"},
    "C08": {"title": "authorisation and sealed batches", "runs": step_runs() + [data_step_run()],
            "technique": STEP_TECH + "; role predicate on the pre-state for every successful path (ecocredit services and the data service)"},
    "C09": {"title": "genesis export/validate/re-import (state validators are handler invariants; ValidateGenesis accepts every invariant state)",
            "runs": step_runs() + [{"module": "ecocredit", "pkg": "./genesis", "harness": "C09_.*", "bounds": GENESIS_BOUNDS,
                                    "budget_s": {"quick": 1500, "thorough": 7200}}, data_step_run()],
            "technique": STEP_TECH + "; the real Validate() of each state type (merged to one formula) asserted on every written row; data module: the real genesis.validateMsg on every row the four data handlers write"},
    "C10": {"title": "handler-level determinism and statelessness (self-composition)",
            "runs": [{"module": "ecocredit", "pkg": "./base/keeper", "harness": "C10_.*", "bounds": STEP_BOUNDS_L1},
                     {"module": "ecocredit", "pkg": "./basket/keeper", "harness": "C10_.*", "bounds": BASKET_BOUNDS_L1,
                      "timeout_ms": {"quick": 20000, "thorough": 60000}},
                     {"module": "ecocredit", "pkg": "./marketplace/keeper", "harness": "C10_" + QUICK_MARKET[len("Step_"):], "bounds": MARKET_BOUNDS},
                     {"module": "ecocredit", "pkg": "./marketplace/keeper", "harness": "C10_MarketBuyDirect", "bounds": STEP_BOUNDS_L1, "tiers": ["thorough"],
                      "budget_s": {"thorough": 7200}},
                     {"module": "data", "pkg": "./server", "harness": "C10_.*", "bounds": DATA_BOUNDS}],
            "technique": "self-composition by go/ssa symbolic execution: every handler is executed twice from the same arbitrary pre-state, request and block time with map iteration order and wall clock chosen independently; final table contents, coins, events, outcome and response are compared and writes to per-process memory are reported + SMT"},
    "C11": {"title": "basket admission, oldest first, auto-retire", "runs": step_runs(("put2",)),
            "technique": STEP_TECH + "; Take on finite-witness iterators ordered by the start-date index"},
    "C12": {"title": "expired orders refunded, begin block never fails", "runs": step_runs(), "technique": STEP_TECH + "; PruneSellOrders on finite-witness iterators"},
    "C13": {"title": "bridge safety", "runs": step_runs(), "technique": STEP_TECH},
    "C14": {"title": "identifiers",
            "runs": [{"module": "ecocredit", "pkg": "./base,./basket", "harness": "C14_.*", "bounds": ID_BOUNDS}] + step_runs(),
            "technique": "go/ssa symbolic execution of the formatters/validators/parsers on symbolic bytes (regex as symbolic NFA) + SMT; handler level through lemma summaries"},
    "C15": {"title": "IRI <-> content hash bijection",
            "runs": [{"module": "data", "pkg": ".", "harness": "C15_.*", "bounds": HASH_BOUNDS}],
            "technique": "go/ssa symbolic execution of ToIRI/ParseIRI/Validate on symbolic bytes + SMT; base58check as an explicit injective encoding"},
    "C16": {"title": "anchors, attestations and registrations are permanent and collision-proof",
            "runs": [{"module": "data", "pkg": "./server", "harness": "C16_.*", "bounds": DATA_BOUNDS},
                     {"module": "data", "pkg": "./server/hasher", "harness": "C16_.*", "bounds": {"quick": {"collisions": 300}, "thorough": {"collisions": 20000}}}],
            "technique": "one-step inductive invariant over the four data messages: go/ssa symbolic execution of the real handlers on model tables with arbitrary pre-state and an uninterpreted ID hash function + SMT; CreateID kernel on an arbitrary digest"},
    "C17": {"title": "list queries return exactly the matching state (filters, joins, field fidelity)",
            "runs": [{"module": "ecocredit", "pkg": "./base/keeper", "harness": "C17_.*", "bounds": QUERY_BOUNDS},
                     {"module": "ecocredit", "pkg": "./marketplace/keeper", "harness": "C17_.*", "bounds": QUERY_BOUNDS},
                     {"module": "ecocredit", "pkg": "./basket/keeper", "harness": "C17_.*", "bounds": QUERY_BOUNDS_BASKET},
                     {"module": "data", "pkg": "./server", "harness": "C17_.*", "bounds": {"quick": {"iter": 2, "list": 1}, "thorough": {"iter": 3, "list": 1}}},
                     {"module": "ecocredit", "pkg": "./base", "harness": "C14_ParsersOnValidDenom", "bounds": ID_BOUNDS, "prefix": "C14"}],
            "technique": "go/ssa symbolic execution of the real query handlers on model tables with arbitrary content (finite-witness iterators with the ORM key codec's prefix semantics) against a specification written over primary data + SMT; the id prefix-freedom lemmas are proved at byte level by the C14 kernel"},
    "C18": {"title": "fees exact; accepted parameters never disable a feature", "runs": [kernel_cost()] + step_runs(),
            "technique": "go/ssa symbolic execution: accepted(p) and pre(op) => op succeeds, negated and solved with p symbolic; fee charging on the CreateClass / basket Create step harnesses"},
    "C19": {"title": "decimal arithmetic",
            "runs": [{"module": "types", "pkg": "./math", "harness": "C19_.*", "bounds": DEC_BOUNDS}],
            "all_obligations": True,
            "technique": "go/ssa symbolic execution of types/math over GDA summaries of apd + SMT"},
    "C20": {"title": "intertx SubmitTx",
            "runs": [{"module": "intertx", "pkg": "./keeper", "harness": "C20_.*", "bounds": {}}],
            "technique": "go/ssa symbolic execution of SubmitTx against recording stubs with symbolic results + SMT"},
}

LEVEL_TEXT = ("Bounded symbolic model checking of the real code: the harness and every regen-ledger function it reaches are "
              "executed from go/ssa with symbolic inputs; each assertion is decided by an SMT solver for all values within the "
              "stated bounds, on every feasible path. A satisfying assignment of a kernel harness is replayed on the natively "
              "compiled code before it is reported; one of a handler-level harness is reported with its model (no native "
              "environment for the table/bank models exists).")

NOT_APPLICABLE = {}
