"""Replay of solver models on the real (natively compiled) code."""


def try_replay(pid, spec, harness, cex_path, tier):
    return "not-attempted"


def replay_file(path):
    return False, "replay not available yet"
