"""Replay of solver models on the natively compiled real code.

The same harness function that was executed symbolically is compiled with `go test -tags
verif -overlay ...` (the harness files, the zzverif runtime and a generated test enter /repo's
packages as overlay files; /repo is not modified) and run with the nondeterministic values
taken from the solver's model. A violation counts as reproduced when the native run fails
the same assertion (or panics)."""
import json
import os
import re
import shutil
import subprocess
import tempfile

from . import driver

PKGINFO = {
    # harness name prefix -> (module key, package dir relative to the module, go package name)
    "VerifHarness_C19_": ("types", "math", "math"),
    "VerifHarness_C15_": ("data", ".", "data"),
    "VerifHarness_C14_BasketDenom": ("ecocredit", "basket", "basket"),
    "VerifHarness_C14_": ("ecocredit", "base", "base"),
    "VerifHarness_C07_": ("ecocredit", "marketplace/keeper", "keeper"),
    "VerifHarness_C18_": ("ecocredit", "marketplace/keeper", "keeper"),
}

ZZIMPORT = {"types": "github.com/regen-network/regen-ledger/types/v2/zzverif",
            "data": "github.com/regen-network/regen-ledger/x/data/v3/zzverif",
            "ecocredit": "github.com/regen-network/regen-ledger/x/ecocredit/v3/zzverif",
            "intertx": "github.com/regen-network/regen-ledger/x/intertx/zzverif"}


def locate(harness):
    for pre, info in PKGINFO.items():
        if harness.startswith(pre):
            return info
    return None


def concretize(cex):
    """Solver model -> label values usable natively. Opaque decimal strings are rebuilt
    from the model's dec_coeff/dec_exp/dec_neg (or dec_mag) of the atom."""
    model = dict(cex.get("model") or {})
    full = cex.get("full_model") or {}
    for label, val in list(model.items()):
        if not isinstance(val, str) or not val.startswith("Str!val!"):
            continue
        var = "nd_" + re.sub(r"[^A-Za-z0-9_.!$-]", "_", label)
        coeff = full.get("(dec_coeff %s)" % var)
        exp = full.get("(dec_exp %s)" % var)
        neg = full.get("(dec_neg %s)" % var)
        mag = full.get("(dec_mag %s)" % var)
        ok = full.get("(dec_ok %s)" % var)
        if ok == "true" and exp is not None and (coeff is not None or mag is not None):
            e = int(driver_int(exp))
            if coeff is not None:
                c = int(driver_int(coeff))
            else:
                from fractions import Fraction
                c = int(parse_real(mag) / (Fraction(10) ** e))
            s = ("-" if neg == "true" else "") + plain_decimal(c, e)
            model[label] = json.dumps(s)
        elif ok == "false":
            model[label] = json.dumps("not-a-decimal")
    return model


def driver_int(s):
    s = s.strip()
    m = re.match(r"^\(-\s*(\d+)\)$", s)
    if m:
        return -int(m.group(1))
    return int(float(s)) if "." in s else int(s)


def parse_real(s):
    from fractions import Fraction
    s = s.strip()
    m = re.match(r"^\(-\s*(.*)\)$", s)
    if m:
        return -parse_real(m.group(1))
    m = re.match(r"^\(/\s*(\S+)\s+(\S+)\)$", s)
    if m:
        return parse_real(m.group(1)) / parse_real(m.group(2))
    return Fraction(s)


def plain_decimal(coeff, exp):
    if exp >= 0:
        return str(coeff * 10 ** exp)
    digits = str(coeff).rjust(-exp + 1, "0")
    return digits[:exp] + "." + digits[exp:]


def try_replay(pid, spec, harness, cex_path, tier):
    info = locate(harness)
    if info is None:
        return "not-replayable (handler-level harness: model reported, native replay not built)"
    with open(cex_path) as fh:
        cex = json.load(fh)
    ok, out = run_native(info, harness, cex, tier)
    cex["replay_output"] = out[-3000:]
    m = re.search(r"REPLAY assume_ok=(\w+) failed=\[(.*?)\] panic=(.*)", out)
    if not m:
        status = "replay-error"
    else:
        failed = m.group(2)
        if cex["obligation"] in failed or (m.group(3).strip() not in ("<nil>", "")):
            status = "reproduced"
        elif m.group(1) == "false":
            status = "not-reproduced"
        else:
            status = "not-reproduced"
    cex["replay_status"] = status
    with open(cex_path, "w") as fh:
        json.dump(cex, fh, indent=1)
    return status


def run_native(info, harness, cex, tier):
    modkey, pkgdir, pkgname = info
    mod = driver.MODULES[modkey]
    moddir = os.path.join(driver.REPO, mod["dir"])
    tmp = tempfile.mkdtemp(prefix="verif-replay-")
    try:
        overlay = {}
        hsrc = os.path.join(driver.VERIF, "harness", mod["harness"], pkgdir)
        names = []
        for f in sorted(os.listdir(hsrc)):
            if f.endswith(".go"):
                overlay[os.path.join(moddir, pkgdir, f)] = os.path.join(hsrc, f)
                names += re.findall(r"^func (VerifHarness_\w+)\(\)", open(os.path.join(hsrc, f)).read(), re.M)
        # other harness packages of the module this one imports (zzinv)
        zsrc = os.path.join(driver.VERIF, "harness", "zzverif")
        for f in sorted(os.listdir(zsrc)):
            overlay[os.path.join(driver.REPO, mod["zz"], f)] = os.path.join(zsrc, f)
        inv = os.path.join(driver.VERIF, "harness", mod["harness"], "zzinv")
        if os.path.isdir(inv):
            for f in sorted(os.listdir(inv)):
                overlay[os.path.join(moddir, "zzinv", f)] = os.path.join(inv, f)
        test = os.path.join(tmp, "zz_verif_replay_test.go")
        table = "\n".join('\t\t"%s": %s,' % (n, n) for n in names)
        with open(test, "w") as fh:
            fh.write('''//go:build verif

package %s

import (
	"encoding/json"
	"fmt"
	"os"
	"testing"

	zz "%s"
)

func TestVerifReplay(t *testing.T) {
	data, err := os.ReadFile(os.Getenv("VERIF_CEX"))
	if err != nil {
		t.Fatal(err)
	}
	var c struct {
		Harness string            `json:"harness"`
		Model   map[string]string `json:"native_model"`
		Bounds  map[string]int    `json:"bounds"`
	}
	if err := json.Unmarshal(data, &c); err != nil {
		t.Fatal(err)
	}
	zz.SetCex(c.Model, c.Bounds)
	table := map[string]func(){
%s
	}
	h, ok := table[c.Harness]
	if !ok {
		t.Fatalf("unknown harness %%s", c.Harness)
	}
	assumeOK, failed, pan := zz.Run(h)
	fmt.Printf("REPLAY assume_ok=%%v failed=%%q panic=%%v\\n", assumeOK, failed, pan)
}
''' % (pkgname, ZZIMPORT[modkey], table))
        overlay[os.path.join(moddir, pkgdir, "zz_verif_replay_test.go")] = test
        ofile = os.path.join(tmp, "overlay.json")
        with open(ofile, "w") as fh:
            json.dump({"Replace": overlay}, fh)
        cexn = dict(cex)
        cexn["native_model"] = concretize(cex)
        cexn["bounds"] = cex.get("bounds") or {}
        cfile = os.path.join(tmp, "cex.json")
        with open(cfile, "w") as fh:
            json.dump(cexn, fh)
        env = dict(driver.GOENV, VERIF_CEX=cfile, GOCACHE=os.path.join(tmp, "gocache") if os.environ.get("VERIF_COLD_CACHE") else driver.GOENV.get("GOCACHE", os.path.expanduser("~/.cache/go-build")))
        rel = "./" + pkgdir if pkgdir != "." else "."
        r = subprocess.run(["go", "test", "-tags", "verif", "-vet=off", "-count=1", "-overlay", ofile, "-run", "TestVerifReplay", "-v", rel],
                           cwd=moddir, env=env, capture_output=True, text=True, timeout=900)
        return r.returncode == 0, r.stdout + r.stderr
    except subprocess.TimeoutExpired:
        return False, "replay timed out"
    finally:
        shutil.rmtree(tmp, ignore_errors=True)


def replay_file(path):
    with open(path) as fh:
        cex = json.load(fh)
    info = locate(cex["harness"])
    if info is None:
        return False, "handler-level counterexample: native replay is not available; model:\n" + json.dumps(cex.get("model"), indent=1)
    ok, out = run_native(info, cex["harness"], cex, "quick")
    m = re.search(r"REPLAY assume_ok=(\w+) failed=\[(.*?)\] panic=(.*)", out)
    reproduced = bool(m) and (cex["obligation"] in m.group(2) or m.group(3).strip() not in ("<nil>", ""))
    return reproduced, out[-3000:]
