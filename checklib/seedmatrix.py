"""Markdown table of the seeded changes and the recorded check results (seeded/*/meta.json)."""
import glob
import json
import os

ROOT = os.path.dirname(os.path.dirname(os.path.abspath(__file__)))


def table():
    rows = ["| seed | what it breaks (short) | needs | caught by | missed by |", "|---|---|---|---|---|"]
    for d in sorted(glob.glob(os.path.join(ROOT, "seeded", "*"))):
        mp = os.path.join(d, "meta.json")
        if not os.path.exists(mp):
            continue
        m = json.load(open(mp))
        caught = [r["check"] for r in m.get("checks_run", []) if r.get("caught")]
        missed = [r["check"] + (" (inconclusive)" if r.get("exit") == 2 else "") for r in m.get("checks_run", []) if not r.get("caught")]
        short = (m.get("breaks") or m.get("summary") or "").replace("\n", " ").replace("|", "/")
        needs = (m.get("needs_to_manifest") or m.get("needs") or "").replace("\n", " ").replace("|", "/")
        note = " " + m["note_after_fix"] if m.get("note_after_fix") else ""
        rows.append("| %s | %s | %s | %s | %s |" % (os.path.basename(d), short[:220] + ("..." if len(short) > 220 else ""),
                                               needs[:160] + ("..." if len(needs) > 160 else ""),
                                               "<br>".join(caught) or "-", ("<br>".join(missed) or "-") + note[:300]))
    return "\n".join(rows)




def merge_results(resdir="/tmp/seedres"):
    """Merge the outcomes written by seedtest2.sh into the seeds' meta.json files."""
    for f in sorted(glob.glob(os.path.join(resdir, "*.json"))):
        r = json.load(open(f))
        mp = os.path.join(ROOT, "seeded", r["seed"], "meta.json")
        if not os.path.exists(mp):
            continue
        m = json.load(open(mp))
        runs = [x for x in m.get("checks_run", []) if x.get("check") != r["entry"]["check"]]
        runs.append(r["entry"])
        m["checks_run"] = runs
        json.dump(m, open(mp, "w"), indent=1)


def refresh_design():
    p = os.path.join(ROOT, "DESIGN.md")
    s = open(p).read()
    a, b = "<!-- SEEDMATRIX:BEGIN -->", "<!-- SEEDMATRIX:END -->"
    if a in s and b in s:
        s = s[:s.index(a) + len(a)] + "\n" + table() + "\n" + s[s.index(b):]
        open(p, "w").write(s)


if __name__ == "__main__":
    import sys
    if "--merge" in sys.argv:
        merge_results()
    if "--design" in sys.argv:
        refresh_design()
    else:
        print(table())
