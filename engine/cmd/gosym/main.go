// gosym: symbolic execution of VerifHarness_* functions of a package of /repo.
package main

import (
	"encoding/json"
	"flag"
	"fmt"
	"os"
	"path/filepath"
	"regexp"
	"strconv"
	"strings"

	"verif/engine/sym"
)

type Output struct {
	Dir       string               `json:"dir"`
	Packages  []string             `json:"packages"`
	LoadS     float64              `json:"load_s"`
	Files     []string             `json:"source_files"`
	Config    *sym.Config          `json:"config"`
	Harnesses []*sym.HarnessResult `json:"harnesses"`
	Error     string               `json:"error,omitempty"`
}

func main() {
	dir := flag.String("dir", "", "module directory under /repo")
	pkgs := flag.String("pkg", "", "comma separated package patterns")
	overlays := flag.String("overlay", "", "comma separated src=dst directory overlays")
	run := flag.String("run", ".*", "regexp selecting harnesses (without the VerifHarness_ prefix)")
	workers := flag.Int("workers", 16, "parallel workers")
	out := flag.String("out", "", "result file (JSON)")
	bounds := flag.String("bounds", "", "comma separated name=value bounds")
	timeout := flag.Int("timeout-ms", 60000, "solver timeout per query")
	solvers := flag.String("solvers", "z3-new,z3,cvc5", "solver portfolio order")
	loop := flag.Int("loop", 64, "loop unwinding bound")
	steps := flag.Int("steps", 2000000, "instruction budget per path")
	list := flag.Bool("list", false, "list harnesses and exit")
	full := flag.Bool("full-models", false, "evaluate all UF applications in counterexample models")
	budget := flag.Int("budget-s", 0, "wall-clock budget per harness in seconds (0 = none)")
	pbudget := flag.Int("path-budget-s", 0, "wall-clock budget per path in seconds (0 = none)")
	dpath := flag.String("path", "", "debug: run only this decision path (comma separated)")
	flag.Parse()

	overlay := map[string][]byte{}
	for _, o := range strings.Split(*overlays, ",") {
		if o == "" {
			continue
		}
		kv := strings.SplitN(o, "=", 2)
		if err := sym.OverlayFromDir(kv[0], kv[1], overlay); err != nil {
			fail(*out, err)
		}
	}
	prog, err := sym.Load(*dir, overlay, strings.Split(*pkgs, ","))
	if err == nil {
		// table declarations are read from the proto files of the tree the module lives in
		for d := *dir; d != "/" && d != "."; d = filepath.Dir(d) {
			if st, e := os.Stat(filepath.Join(d, "proto", "regen")); e == nil && st.IsDir() {
				prog.ProtoRoot = filepath.Join(d, "proto")
				break
			}
		}
	}
	if err != nil {
		fail(*out, err)
	}
	cfg := &sym.Config{MaxSteps: *steps, LoopBound: *loop, MaxDepth: 200, Bounds: map[string]int{}, Solvers: strings.Split(*solvers, ","), TimeoutMs: *timeout, FullModels: *full, BudgetS: *budget, PathBudgetS: *pbudget}
	for _, kv := range strings.Split(*bounds, ",") {
		if kv == "" {
			continue
		}
		p := strings.SplitN(kv, "=", 2)
		v, err := strconv.Atoi(p[1])
		if err != nil {
			fail(*out, err)
		}
		cfg.Bounds[p[0]] = v
	}
	if *dpath != "" {
		cfg.Debug = true
		cfg.Transcript = "/tmp/gosym-transcript.smt2"
		cfg.DebugPath = []int{}
		for _, v := range strings.Split(*dpath, ",") {
			n, _ := strconv.Atoi(strings.TrimSpace(v))
			cfg.DebugPath = append(cfg.DebugPath, n)
		}
	}
	re := regexp.MustCompile("^VerifHarness_(" + *run + ")$")
	o := &Output{Dir: *dir, Packages: strings.Split(*pkgs, ","), LoadS: prog.LoadS, Config: cfg}
	for _, f := range prog.Files {
		if !strings.Contains(filepath.Base(f), "zz_verif") {
			o.Files = append(o.Files, f)
		}
	}
	for _, h := range prog.Harnesses() {
		if !re.MatchString(h.Name()) {
			continue
		}
		if *list {
			fmt.Println(h.Name())
			continue
		}
		r := prog.RunHarness(h, cfg, *workers)
		o.Harnesses = append(o.Harnesses, r)
		fmt.Fprintf(os.Stderr, "%-50s paths=%d status=%v wall=%.1fs solver=%.1fs\n", h.Name(), r.Paths, r.Status, r.WallS, r.SolverS)
		for _, ob := range r.Obligations {
			if ob.Sat > 0 || ob.Unknown > 0 {
				fmt.Fprintf(os.Stderr, "    %-40s unsat=%d sat=%d unknown=%d\n", ob.Name, ob.Unsat, ob.Sat, ob.Unknown)
			}
		}
		for _, ic := range r.Inconclusive {
			fmt.Fprintf(os.Stderr, "    INCONCLUSIVE %s: %s\n", ic.Status, ic.Msg)
			break
		}
	}
	if *list {
		return
	}
	write(*out, o)
}

func write(path string, o *Output) {
	data, _ := json.MarshalIndent(o, "", " ")
	if path == "" {
		os.Stdout.Write(data)
		return
	}
	os.WriteFile(path, data, 0o644)
}

func fail(path string, err error) {
	fmt.Fprintln(os.Stderr, "gosym:", err)
	write(path, &Output{Error: err.Error()})
	os.Exit(3)
}
