package smt

import (
	"bufio"
	"fmt"
	"io"
	"os"
	"os/exec"
	"strings"
	"sync"
	"sync/atomic"
	"time"
)

type Result int

const (
	Unsat Result = iota
	Sat
	Unknown
)

func (r Result) String() string {
	switch r {
	case Unsat:
		return "unsat"
	case Sat:
		return "sat"
	}
	return "unknown"
}

// Proc is one long-lived solver process speaking SMT-LIB2 on stdin/stdout.
type Proc struct {
	HardMs int    // hard limit per query: the process is killed when exceeded
	Kind   string // z3 | z3-new | cvc5
	cmd    *exec.Cmd
	in     io.WriteCloser
	out    *bufio.Reader
	Log    io.Writer // optional transcript
	wch    chan string
	dead   bool
	mu     sync.Mutex
	Stats  *Stats
}

type Stats struct {
	mu      sync.Mutex
	Queries map[string]int // "<solver>/<verdict>"
	TimeS   float64
	MaxS    float64
}

func NewStats() *Stats { return &Stats{Queries: map[string]int{}} }

func (s *Stats) add(kind string, r Result, d time.Duration) {
	s.mu.Lock()
	s.Queries[kind+"/"+r.String()]++
	s.TimeS += d.Seconds()
	if d.Seconds() > s.MaxS {
		s.MaxS = d.Seconds()
	}
	s.mu.Unlock()
}

func StartProc(kind string, timeoutMs int, stats *Stats) (*Proc, error) {
	var cmd *exec.Cmd
	switch kind {
	case "z3":
		cmd = exec.Command("z3", "-in", fmt.Sprintf("-t:%d", timeoutMs))
	case "z3-new":
		cmd = exec.Command("z3-new", "-in", fmt.Sprintf("-t:%d", timeoutMs))
	case "cvc5":
		cmd = exec.Command("cvc5", "--incremental", "--lang=smt2", fmt.Sprintf("--tlimit-per=%d", timeoutMs), "--produce-models")
	default:
		return nil, fmt.Errorf("unknown solver %q", kind)
	}
	in, err := cmd.StdinPipe()
	if err != nil {
		return nil, err
	}
	out, err := cmd.StdoutPipe()
	if err != nil {
		return nil, err
	}
	cmd.Stderr = cmd.Stdout
	if err := cmd.Start(); err != nil {
		return nil, err
	}
	p := &Proc{Kind: kind, cmd: cmd, in: in, out: bufio.NewReaderSize(out, 1<<20), Stats: stats, HardMs: 2*timeoutMs + 3000}
	// stdin is fed by its own goroutine so that a solver blocked on a full stdout pipe can
	// never deadlock against us writing a large query
	p.wch = make(chan string, 1<<14)
	go func() {
		for s := range p.wch {
			if _, err := io.WriteString(p.in, s); err != nil {
				p.dead = true
				for range p.wch {
				}
				return
			}
		}
	}()
	return p, nil
}

// Dead reports whether the process has been killed or has exited.
func (p *Proc) Dead() bool { return p == nil || p.dead }

func (p *Proc) Close() {
	if p == nil || p.dead {
		return
	}
	p.dead = true
	close(p.wch)
	p.cmd.Process.Kill()
	p.in.Close()
	p.cmd.Wait()
}

func (p *Proc) send(s string) {
	if p.Log != nil {
		io.WriteString(p.Log, s)
	}
	if p.dead {
		return
	}
	select {
	case p.wch <- s:
	default:
		// queue full: the solver is not consuming input any more
		p.dead = true
		p.cmd.Process.Kill()
	}
}

// readSexp reads one complete response: either a bare token line or a balanced s-expression.
func (p *Proc) readResponse() (string, error) {
	var sb strings.Builder
	depth := 0
	started := false
	inStr := false
	for {
		line, err := p.out.ReadString('\n')
		if err != nil {
			return sb.String(), err
		}
		for _, c := range line {
			if c == '"' {
				inStr = !inStr
			}
			if inStr {
				continue
			}
			if c == '(' {
				depth++
				started = true
			} else if c == ')' {
				depth--
			}
		}
		sb.WriteString(line)
		if strings.TrimSpace(line) == "" && !started {
			continue
		}
		if depth <= 0 {
			return sb.String(), nil
		}
	}
}

// Session is the per-path view of a solver: which symbols and terms have been emitted.
type Session struct {
	P        *Proc
	B        *Builder
	defined  map[int]bool
	declUF   map[string]bool
	nConsts  int
	Errors   []string
	asserted int
	pending  strings.Builder
	script   strings.Builder
}

func NewSession(p *Proc, b *Builder) *Session {
	s := &Session{P: p, B: b, defined: map[int]bool{}, declUF: map[string]bool{}}
	s.pending.WriteString("(reset)\n")
	if p.Kind == "cvc5" {
		s.pending.WriteString("(set-logic ALL)\n")
	}
	s.pending.WriteString("(set-option :produce-models true)\n(declare-sort Str 0)\n")
	return s
}

func (s *Session) emitTerm(t *Term) {
	if s.defined[t.ID] {
		return
	}
	s.defined[t.ID] = true
	switch t.Op {
	case "cb", "ci", "cr":
		return
	case "var":
		fmt.Fprintf(&s.pending, "(declare-const %s %s)\n", t.Name, t.Sort)
		return
	case "cs":
		fmt.Fprintf(&s.pending, "(declare-const %s Str)\n", t.Name)
		return
	}
	for _, a := range t.Args {
		s.emitTerm(a)
	}
	if t.Op == "app" && !s.declUF[t.Name] {
		s.declUF[t.Name] = true
		d := s.B.UFs[t.Name]
		var as []string
		for _, a := range d.Args {
			as = append(as, a.String())
		}
		fmt.Fprintf(&s.pending, "(declare-fun %s (%s) %s)\n", d.Name, strings.Join(as, " "), d.Ret)
	}
	fmt.Fprintf(&s.pending, "(define-fun t%d () %s %s)\n", t.ID, t.Sort, t.Body())
}

// syncConsts asserts pairwise distinctness of the interned string constants.
func (s *Session) syncConsts() {
	n := len(s.B.ConstL)
	if n == s.nConsts {
		return
	}
	if n >= 2 {
		var names []string
		for i := 0; i < n; i++ {
			t := s.B.Consts[s.B.ConstL[i]]
			s.emitTerm(t)
			names = append(names, t.Name)
		}
		fmt.Fprintf(&s.pending, "(assert (distinct %s))\n", strings.Join(names, " "))
	}
	s.nConsts = n
}

// Assert adds t to the permanent assertion set of this session.
func (s *Session) Assert(t *Term) {
	if t.IsTrue() {
		return
	}
	s.emitTerm(t)
	fmt.Fprintf(&s.pending, "(assert %s)\n", t.Ref())
	s.asserted++
}

func (s *Session) flush() {
	s.syncConsts()
	if dumpSlow {
		s.script.WriteString(s.pending.String())
	}
	s.P.send(s.pending.String())
	s.pending.Reset()
}

var dumpSlow = os.Getenv("GOSYM_DUMP_SLOW") != ""
var dumpN int32

func (s *Session) maybeDump(d time.Duration, r Result) {
	if !dumpSlow || d < 4*time.Second {
		return
	}
	n := atomic.AddInt32(&dumpN, 1)
	if n > 20 {
		return
	}
	os.WriteFile(fmt.Sprintf("/tmp/slowq-%d-%s.smt2", n, r), []byte(s.script.String()), 0o644)
}

// Check decides satisfiability of (asserted set) and extra.
func (s *Session) Check(extra ...*Term) Result {
	for _, t := range extra {
		s.emitTerm(t)
	}
	s.syncConsts()
	s.pending.WriteString("(push 1)\n")
	for _, t := range extra {
		fmt.Fprintf(&s.pending, "(assert %s)\n", t.Ref())
	}
	s.pending.WriteString("(check-sat)\n")
	t0 := time.Now()
	s.flush()
	r := s.readVerdict()
	if s.P.Stats != nil {
		s.P.Stats.add(s.P.Kind, r, time.Since(t0))
	}
	s.maybeDump(time.Since(t0), r)
	if dumpSlow {
		s.script.WriteString("(pop 1)\n")
	}
	s.P.send("(pop 1)\n")
	return r
}

// CheckModel is Check, but on sat it evaluates the given terms before popping.
func (s *Session) CheckModel(extra []*Term, eval []*Term) (Result, map[int]string) {
	for _, t := range extra {
		s.emitTerm(t)
	}
	for _, t := range eval {
		s.emitTerm(t)
	}
	s.syncConsts()
	s.pending.WriteString("(push 1)\n")
	for _, t := range extra {
		fmt.Fprintf(&s.pending, "(assert %s)\n", t.Ref())
	}
	s.pending.WriteString("(check-sat)\n")
	t0 := time.Now()
	s.flush()
	r := s.readVerdict()
	if s.P.Stats != nil {
		s.P.Stats.add(s.P.Kind, r, time.Since(t0))
	}
	var vals map[int]string
	if r == Sat && len(eval) > 0 {
		vals = map[int]string{}
		// one get-value per term keeps parsing trivial
		for _, t := range eval {
			if t.IsConst() && t.Op != "cs" {
				vals[t.ID] = t.atomString()
				continue
			}
			s.P.send(fmt.Sprintf("(get-value (%s))\n", t.Ref()))
			resp, err := s.P.readResponse()
			if err != nil || strings.Contains(resp, "(error") {
				s.Errors = append(s.Errors, "get-value: "+strings.TrimSpace(resp))
				continue
			}
			vals[t.ID] = parseGetValue(resp)
		}
	}
	s.maybeDump(time.Since(t0), r)
	if dumpSlow {
		s.script.WriteString("(pop 1)\n")
	}
	s.P.send("(pop 1)\n")
	return r, vals
}

func (s *Session) readVerdict() Result {
	// hard limit: some solver versions ignore the soft timeout on non-linear problems
	timer := time.AfterFunc(time.Duration(s.P.HardMs)*time.Millisecond, func() {
		s.P.dead = true
		s.P.cmd.Process.Kill()
	})
	defer timer.Stop()
	for {
		resp, err := s.P.readResponse()
		if err != nil {
			if !s.P.dead {
				s.Errors = append(s.Errors, "solver died: "+err.Error()+" "+resp)
			}
			s.P.dead = true
			return Unknown
		}
		r := strings.TrimSpace(resp)
		switch r {
		case "sat":
			return Sat
		case "unsat":
			return Unsat
		case "unknown", "timeout":
			return Unknown
		case "success", "":
			continue
		}
		if strings.HasPrefix(r, "(error") {
			s.Errors = append(s.Errors, r)
			// keep reading: the verdict still follows, but the result is unusable
			for {
				resp2, err2 := s.P.readResponse()
				if err2 != nil {
					s.P.dead = true
					return Unknown
				}
				r2 := strings.TrimSpace(resp2)
				if r2 == "sat" || r2 == "unsat" || r2 == "unknown" || r2 == "timeout" {
					return Unknown
				}
			}
		}
		// unexpected chatter
		s.Errors = append(s.Errors, "unexpected solver output: "+r)
	}
}

// parseGetValue extracts the value text from "((ref value))".
func parseGetValue(resp string) string {
	r := strings.TrimSpace(resp)
	if !strings.HasPrefix(r, "((") {
		return r
	}
	r = r[2 : len(r)-2]
	// skip the term (balanced)
	depth := 0
	i := 0
	for i < len(r) {
		c := r[i]
		if c == '(' {
			depth++
		} else if c == ')' {
			depth--
		} else if (c == ' ' || c == '\n') && depth == 0 {
			break
		}
		i++
	}
	return strings.TrimSpace(r[i:])
}
