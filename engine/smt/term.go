// Package smt is a small hash-consed term layer that prints SMT-LIB2.
//
// Sorts: Bool, Int, Real and the uninterpreted sort Str (atoms: opaque strings and byte
// strings). Constructors simplify eagerly (constant folding, ite with constant guard, x=x)
// and track integer intervals so that machine-integer wrap-around normalisation can be
// dropped when the interval already proves it unnecessary.
package smt

import (
	"fmt"
	"math/big"
	"sort"
	"strings"
)

type Sort uint8

const (
	SBool Sort = iota
	SInt
	SReal
	SStr
)

func (s Sort) String() string {
	switch s {
	case SBool:
		return "Bool"
	case SInt:
		return "Int"
	case SReal:
		return "Real"
	}
	return "Str"
}

type Term struct {
	ID   int
	Op   string
	Sort Sort
	Args []*Term
	Name string   // var / uf name
	Int  *big.Int // const int
	Rat  *big.Rat // const real
	B    bool     // const bool
	Lo   *big.Int // interval (Int sort), nil = unbounded
	Hi   *big.Int
}

// Builder owns the hash-consing table. One Builder per path execution.
type Builder struct {
	tab    map[string]*Term
	n      int
	fresh  map[string]int
	True   *Term
	False  *Term
	UFs    map[string]UFDecl
	Consts map[string]*Term // interned string constants by content
	ConstL []string
}

type UFDecl struct {
	Name string
	Args []Sort
	Ret  Sort
}

func NewBuilder() *Builder {
	b := &Builder{tab: map[string]*Term{}, fresh: map[string]int{}, UFs: map[string]UFDecl{}, Consts: map[string]*Term{}}
	b.True = b.intern(&Term{Op: "cb", Sort: SBool, B: true})
	b.False = b.intern(&Term{Op: "cb", Sort: SBool, B: false})
	return b
}

func (b *Builder) key(t *Term) string {
	var sb strings.Builder
	sb.WriteString(t.Op)
	sb.WriteByte('|')
	sb.WriteString(t.Name)
	sb.WriteByte('|')
	switch t.Op {
	case "cb":
		if t.B {
			sb.WriteByte('T')
		} else {
			sb.WriteByte('F')
		}
	case "ci":
		sb.WriteString(t.Int.String())
	case "cr":
		sb.WriteString(t.Rat.String())
	}
	for _, a := range t.Args {
		fmt.Fprintf(&sb, ",%d", a.ID)
	}
	sb.WriteByte('|')
	sb.WriteByte(byte('0' + t.Sort))
	return sb.String()
}

func (b *Builder) intern(t *Term) *Term {
	k := b.key(t)
	if o, ok := b.tab[k]; ok {
		return o
	}
	b.n++
	t.ID = b.n
	b.tab[k] = t
	return t
}

func (b *Builder) NumTerms() int { return b.n }

// Apps returns all uninterpreted-function applications and free constants built so far.
func (b *Builder) Apps() []*Term {
	var out []*Term
	for _, t := range b.tab {
		if t.Op == "app" || t.Op == "var" {
			out = append(out, t)
		}
	}
	sort.Slice(out, func(i, j int) bool { return out[i].ID < out[j].ID })
	return out
}

// ---- constants and variables

func (b *Builder) Bool(v bool) *Term {
	if v {
		return b.True
	}
	return b.False
}

func (b *Builder) Int(v int64) *Term { return b.BigInt(big.NewInt(v)) }

func (b *Builder) BigInt(v *big.Int) *Term {
	c := new(big.Int).Set(v)
	return b.intern(&Term{Op: "ci", Sort: SInt, Int: c, Lo: c, Hi: c})
}

func (b *Builder) RatC(v *big.Rat) *Term {
	lo, hi := ratFloorCeil(v)
	return b.intern(&Term{Op: "cr", Sort: SReal, Rat: new(big.Rat).Set(v), Lo: lo, Hi: hi})
}

func ratFloorCeil(v *big.Rat) (*big.Int, *big.Int) {
	lo, m := new(big.Int), new(big.Int)
	lo.DivMod(v.Num(), v.Denom(), m)
	hi := new(big.Int).Set(lo)
	if m.Sign() != 0 {
		hi.Add(hi, big.NewInt(1))
	}
	return lo, hi
}

func (b *Builder) RealInt(v int64) *Term { return b.RatC(new(big.Rat).SetInt64(v)) }

// Var returns the (unique) free constant with this name and sort.
func (b *Builder) Var(name string, s Sort) *Term {
	return b.intern(&Term{Op: "var", Sort: s, Name: sanitize(name)})
}

// Fresh returns a new free constant whose name starts with prefix.
func (b *Builder) Fresh(prefix string, s Sort) *Term {
	prefix = sanitize(prefix)
	b.fresh[prefix]++
	return b.Var(fmt.Sprintf("%s!%d", prefix, b.fresh[prefix]), s)
}

func sanitize(s string) string {
	var sb strings.Builder
	for _, r := range s {
		switch {
		case r >= 'a' && r <= 'z', r >= 'A' && r <= 'Z', r >= '0' && r <= '9', r == '_', r == '.', r == '!', r == '$', r == '-':
			sb.WriteRune(r)
		default:
			sb.WriteByte('_')
		}
	}
	if sb.Len() == 0 {
		return "_"
	}
	return sb.String()
}

// StrConst interns a concrete string as a distinct element of sort Str.
func (b *Builder) StrConst(s string) *Term {
	if t, ok := b.Consts[s]; ok {
		return t
	}
	t := b.intern(&Term{Op: "cs", Sort: SStr, Name: fmt.Sprintf("str%d", len(b.ConstL))})
	b.Consts[s] = t
	b.ConstL = append(b.ConstL, s)
	return t
}

// StrConstValue returns the concrete content of a "cs" term.
func (b *Builder) StrConstValue(t *Term) (string, bool) {
	if t.Op != "cs" {
		return "", false
	}
	var i int
	fmt.Sscanf(t.Name, "str%d", &i)
	return b.ConstL[i], true
}

func (b *Builder) App(name string, ret Sort, args ...*Term) *Term {
	name = sanitize(name)
	if _, ok := b.UFs[name]; !ok {
		d := UFDecl{Name: name, Ret: ret}
		for _, a := range args {
			d.Args = append(d.Args, a.Sort)
		}
		b.UFs[name] = d
	} else {
		d := b.UFs[name]
		if len(d.Args) != len(args) || d.Ret != ret {
			panic("smt: UF " + name + " redeclared with a different signature")
		}
		for i, a := range args {
			if d.Args[i] != a.Sort {
				panic("smt: UF " + name + " applied at a different sort")
			}
		}
	}
	return b.intern(&Term{Op: "app", Sort: ret, Name: name, Args: args})
}

// ---- boolean

func (t *Term) IsTrue() bool  { return t.Op == "cb" && t.B }
func (t *Term) IsFalse() bool { return t.Op == "cb" && !t.B }
func (t *Term) IsConst() bool { return t.Op == "cb" || t.Op == "ci" || t.Op == "cr" || t.Op == "cs" }

func (b *Builder) Not(x *Term) *Term {
	if x.Op == "cb" {
		return b.Bool(!x.B)
	}
	if x.Op == "not" {
		return x.Args[0]
	}
	return b.intern(&Term{Op: "not", Sort: SBool, Args: []*Term{x}})
}

func (b *Builder) nary(op string, unit bool, xs []*Term) *Term {
	var out []*Term
	seen := map[int]bool{}
	for _, x := range xs {
		if x.Op == "cb" {
			if x.B == unit {
				continue
			}
			return b.Bool(!unit)
		}
		if x.Op == op {
			for _, y := range x.Args {
				if !seen[y.ID] {
					seen[y.ID] = true
					out = append(out, y)
				}
			}
			continue
		}
		if !seen[x.ID] {
			seen[x.ID] = true
			out = append(out, x)
		}
	}
	for _, x := range out {
		if x.Op == "not" && seen[x.Args[0].ID] {
			return b.Bool(!unit)
		}
	}
	if len(out) == 0 {
		return b.Bool(unit)
	}
	if len(out) == 1 {
		return out[0]
	}
	return b.intern(&Term{Op: op, Sort: SBool, Args: out})
}

func (b *Builder) And(xs ...*Term) *Term { return b.nary("and", true, xs) }
func (b *Builder) Or(xs ...*Term) *Term  { return b.nary("or", false, xs) }
func (b *Builder) Implies(x, y *Term) *Term {
	return b.Or(b.Not(x), y)
}
func (b *Builder) Iff(x, y *Term) *Term { return b.Eq(x, y) }

func (b *Builder) Ite(c, x, y *Term) *Term {
	if c.Op == "cb" {
		if c.B {
			return x
		}
		return y
	}
	if x == y {
		return x
	}
	if x.Sort != y.Sort {
		panic(fmt.Sprintf("smt: ite sort mismatch %v %v", x.Sort, y.Sort))
	}
	if x.Sort == SBool {
		if x.IsTrue() && y.IsFalse() {
			return c
		}
		if x.IsFalse() && y.IsTrue() {
			return b.Not(c)
		}
		if x.IsTrue() {
			return b.Or(c, y)
		}
		if x.IsFalse() {
			return b.And(b.Not(c), y)
		}
		if y.IsTrue() {
			return b.Or(b.Not(c), x)
		}
		if y.IsFalse() {
			return b.And(c, x)
		}
	}
	t := &Term{Op: "ite", Sort: x.Sort, Args: []*Term{c, x, y}}
	if x.Sort == SInt || x.Sort == SReal {
		if x.Lo != nil && y.Lo != nil {
			t.Lo = minBig(x.Lo, y.Lo)
		}
		if x.Hi != nil && y.Hi != nil {
			t.Hi = maxBig(x.Hi, y.Hi)
		}
	}
	return b.intern(t)
}

func (b *Builder) Eq(x, y *Term) *Term {
	if x == y {
		return b.True
	}
	if x.Sort != y.Sort {
		if x.Sort == SInt && y.Sort == SReal {
			x = b.ToReal(x)
		} else if x.Sort == SReal && y.Sort == SInt {
			y = b.ToReal(y)
		} else {
			panic(fmt.Sprintf("smt: eq sort mismatch %v %v", x.Sort, y.Sort))
		}
	}
	if x.IsConst() && y.IsConst() {
		switch x.Op {
		case "cb":
			return b.Bool(x.B == y.B)
		case "ci":
			return b.Bool(x.Int.Cmp(y.Int) == 0)
		case "cr":
			return b.Bool(x.Rat.Cmp(y.Rat) == 0)
		case "cs":
			return b.Bool(x == y)
		}
	}
	if x.Sort == SBool {
		if x.IsTrue() {
			return y
		}
		if y.IsTrue() {
			return x
		}
		if x.IsFalse() {
			return b.Not(y)
		}
		if y.IsFalse() {
			return b.Not(x)
		}
	}
	if x.Sort == SInt {
		// disjoint intervals
		if x.Hi != nil && y.Lo != nil && x.Hi.Cmp(y.Lo) < 0 {
			return b.False
		}
		if y.Hi != nil && x.Lo != nil && y.Hi.Cmp(x.Lo) < 0 {
			return b.False
		}
	}
	if x.ID > y.ID {
		x, y = y, x
	}
	return b.intern(&Term{Op: "=", Sort: SBool, Args: []*Term{x, y}})
}

func (b *Builder) Neq(x, y *Term) *Term { return b.Not(b.Eq(x, y)) }

func (b *Builder) Distinct(xs ...*Term) *Term {
	if len(xs) < 2 {
		return b.True
	}
	if len(xs) == 2 {
		return b.Neq(xs[0], xs[1])
	}
	return b.intern(&Term{Op: "distinct", Sort: SBool, Args: xs})
}

// ---- arithmetic

func (b *Builder) coerce(x, y *Term) (*Term, *Term) {
	if x.Sort == y.Sort {
		return x, y
	}
	if x.Sort == SInt && y.Sort == SReal {
		return b.ToReal(x), y
	}
	if x.Sort == SReal && y.Sort == SInt {
		return x, b.ToReal(y)
	}
	panic(fmt.Sprintf("smt: arithmetic sort mismatch %v %v", x.Sort, y.Sort))
}

func (b *Builder) ToReal(x *Term) *Term {
	if x.Sort == SReal {
		return x
	}
	if x.Op == "ci" {
		return b.RatC(new(big.Rat).SetInt(x.Int))
	}
	if x.Op == "to_int" && false {
		return x.Args[0]
	}
	return b.intern(&Term{Op: "to_real", Sort: SReal, Args: []*Term{x}, Lo: x.Lo, Hi: x.Hi})
}

// asInt returns an Int term equal to the Real term x when x is syntactically integer-valued.
func (b *Builder) asInt(x *Term) (*Term, bool) {
	switch x.Op {
	case "cr":
		if x.Rat.IsInt() {
			return b.BigInt(x.Rat.Num()), true
		}
	case "to_real":
		return x.Args[0], true
	case "+", "-", "*":
		l, ok1 := b.asInt(x.Args[0])
		r, ok2 := b.asInt(x.Args[1])
		if ok1 && ok2 {
			switch x.Op {
			case "+":
				return b.Add(l, r), true
			case "-":
				return b.Sub(l, r), true
			default:
				return b.Mul(l, r), true
			}
		}
	case "ite":
		l, ok1 := b.asInt(x.Args[1])
		r, ok2 := b.asInt(x.Args[2])
		if ok1 && ok2 {
			return b.Ite(x.Args[0], l, r), true
		}
	}
	return nil, false
}

// scaledInt recognises x = to_real(i) * (p/q) and returns (i, p, q).
func (b *Builder) scaledInt(x *Term) (*Term, *big.Int, *big.Int, bool) {
	if x.Op != "*" {
		return nil, nil, nil, false
	}
	l, r := x.Args[0], x.Args[1]
	if l.Op == "cr" {
		l, r = r, l
	}
	if r.Op != "cr" {
		return nil, nil, nil, false
	}
	i, ok := b.asInt(l)
	if !ok {
		return nil, nil, nil, false
	}
	return i, r.Rat.Num(), r.Rat.Denom(), true
}

// Floor is SMT-LIB to_int (floor). Integer-valued and scaled-integer arguments stay in
// integer arithmetic (division by a constant) instead of going through to_int.
func (b *Builder) Floor(x *Term) *Term {
	if x.Sort == SInt {
		return x
	}
	if x.Op == "cr" {
		n := new(big.Int)
		m := new(big.Int)
		n.DivMod(x.Rat.Num(), x.Rat.Denom(), m) // Euclidean: floor for positive denom
		return b.BigInt(n)
	}
	if i, ok := b.asInt(x); ok {
		return i
	}
	if x.Op == "ite" {
		return b.Ite(x.Args[0], b.Floor(x.Args[1]), b.Floor(x.Args[2]))
	}
	if i, p, q, ok := b.scaledInt(x); ok {
		return b.Div(b.Mul(i, b.BigInt(p)), b.BigInt(q))
	}
	return b.intern(&Term{Op: "to_int", Sort: SInt, Args: []*Term{x}, Lo: x.Lo, Hi: x.Hi})
}

func (b *Builder) IsInt(x *Term) *Term {
	if x.Sort == SInt {
		return b.True
	}
	if x.Op == "cr" {
		return b.Bool(x.Rat.IsInt())
	}
	if _, ok := b.asInt(x); ok {
		return b.True
	}
	if x.Op == "ite" {
		return b.Ite(x.Args[0], b.IsInt(x.Args[1]), b.IsInt(x.Args[2]))
	}
	if i, p, q, ok := b.scaledInt(x); ok {
		return b.Eq(b.Mod(b.Mul(i, b.BigInt(p)), b.BigInt(q)), b.Int(0))
	}
	return b.intern(&Term{Op: "is_int", Sort: SBool, Args: []*Term{x}})
}

func (b *Builder) Add(x, y *Term) *Term {
	x, y = b.coerce(x, y)
	if x.Op == "ci" && y.Op == "ci" {
		return b.BigInt(new(big.Int).Add(x.Int, y.Int))
	}
	if x.Op == "cr" && y.Op == "cr" {
		return b.RatC(new(big.Rat).Add(x.Rat, y.Rat))
	}
	if isZero(x) {
		return y
	}
	if isZero(y) {
		return x
	}
	t := &Term{Op: "+", Sort: x.Sort, Args: []*Term{x, y}}
	if x.Sort == SInt || x.Sort == SReal {
		if x.Lo != nil && y.Lo != nil {
			t.Lo = new(big.Int).Add(x.Lo, y.Lo)
		}
		if x.Hi != nil && y.Hi != nil {
			t.Hi = new(big.Int).Add(x.Hi, y.Hi)
		}
	}
	return b.intern(t)
}

func (b *Builder) Sum(xs ...*Term) *Term {
	if len(xs) == 0 {
		return b.Int(0)
	}
	r := xs[0]
	for _, x := range xs[1:] {
		r = b.Add(r, x)
	}
	return r
}

func (b *Builder) Sub(x, y *Term) *Term {
	x, y = b.coerce(x, y)
	if x.Op == "ci" && y.Op == "ci" {
		return b.BigInt(new(big.Int).Sub(x.Int, y.Int))
	}
	if x.Op == "cr" && y.Op == "cr" {
		return b.RatC(new(big.Rat).Sub(x.Rat, y.Rat))
	}
	if isZero(y) {
		return x
	}
	if x == y {
		if x.Sort == SInt {
			return b.Int(0)
		}
		return b.RealInt(0)
	}
	t := &Term{Op: "-", Sort: x.Sort, Args: []*Term{x, y}}
	if x.Sort == SInt || x.Sort == SReal {
		if x.Lo != nil && y.Hi != nil {
			t.Lo = new(big.Int).Sub(x.Lo, y.Hi)
		}
		if x.Hi != nil && y.Lo != nil {
			t.Hi = new(big.Int).Sub(x.Hi, y.Lo)
		}
	}
	return b.intern(t)
}

func (b *Builder) Neg(x *Term) *Term {
	if x.Sort == SInt {
		return b.Sub(b.Int(0), x)
	}
	return b.Sub(b.RealInt(0), x)
}

func (b *Builder) Mul(x, y *Term) *Term {
	x, y = b.coerce(x, y)
	if x.Op == "ci" && y.Op == "ci" {
		return b.BigInt(new(big.Int).Mul(x.Int, y.Int))
	}
	if x.Op == "cr" && y.Op == "cr" {
		return b.RatC(new(big.Rat).Mul(x.Rat, y.Rat))
	}
	if isZero(x) || isOne(y) {
		return x
	}
	if isZero(y) || isOne(x) {
		return y
	}
	// (t * c1) * c2 = t * (c1*c2)
	if y.Op == "cr" && x.Op == "*" && x.Args[1].Op == "cr" {
		return b.Mul(x.Args[0], b.RatC(new(big.Rat).Mul(x.Args[1].Rat, y.Rat)))
	}
	if x.Op == "cr" && y.Op == "*" && y.Args[1].Op == "cr" {
		return b.Mul(y.Args[0], b.RatC(new(big.Rat).Mul(y.Args[1].Rat, x.Rat)))
	}
	if x.Op == "cr" && y.Op == "*" && y.Args[0].Op == "cr" {
		return b.Mul(y.Args[1], b.RatC(new(big.Rat).Mul(y.Args[0].Rat, x.Rat)))
	}
	if y.Op == "cr" && x.Op == "*" && x.Args[0].Op == "cr" {
		return b.Mul(x.Args[1], b.RatC(new(big.Rat).Mul(x.Args[0].Rat, y.Rat)))
	}
	// push constant multiplication inside ite tables (keeps each branch linear)
	if x.IsConst() && y.Op == "ite" {
		return b.Ite(y.Args[0], b.Mul(x, y.Args[1]), b.Mul(x, y.Args[2]))
	}
	if y.IsConst() && x.Op == "ite" {
		return b.Ite(x.Args[0], b.Mul(x.Args[1], y), b.Mul(x.Args[2], y))
	}
	if !x.IsConst() && y.Op == "ite" && y.Args[1].IsConst() {
		return b.Ite(y.Args[0], b.Mul(x, y.Args[1]), b.Mul(x, y.Args[2]))
	}
	if !y.IsConst() && x.Op == "ite" && x.Args[1].IsConst() {
		return b.Ite(x.Args[0], b.Mul(x.Args[1], y), b.Mul(x.Args[2], y))
	}
	if x.ID > y.ID && !x.IsConst() {
		x, y = y, x
	}
	t := &Term{Op: "*", Sort: x.Sort, Args: []*Term{x, y}}
	if (x.Sort == SInt || x.Sort == SReal) && x.Lo != nil && x.Hi != nil && y.Lo != nil && y.Hi != nil {
		c := []*big.Int{new(big.Int).Mul(x.Lo, y.Lo), new(big.Int).Mul(x.Lo, y.Hi), new(big.Int).Mul(x.Hi, y.Lo), new(big.Int).Mul(x.Hi, y.Hi)}
		t.Lo, t.Hi = c[0], c[0]
		for _, v := range c[1:] {
			t.Lo = minBig(t.Lo, v)
			t.Hi = maxBig(t.Hi, v)
		}
	}
	return b.intern(t)
}

// RDiv is real division x / y.
func (b *Builder) RDiv(x, y *Term) *Term {
	x = b.ToReal(x)
	y = b.ToReal(y)
	if y.Op == "cr" && y.Rat.Sign() != 0 {
		if x.Op == "cr" {
			return b.RatC(new(big.Rat).Quo(x.Rat, y.Rat))
		}
		return b.Mul(x, b.RatC(new(big.Rat).Inv(y.Rat)))
	}
	return b.intern(&Term{Op: "/", Sort: SReal, Args: []*Term{x, y}})
}

// Div is SMT-LIB integer div (floor for positive divisors, Euclidean in general).
func (b *Builder) Div(x, y *Term) *Term {
	if x.Op == "ci" && y.Op == "ci" && y.Int.Sign() != 0 {
		q, m := new(big.Int), new(big.Int)
		q.DivMod(x.Int, y.Int, m)
		return b.BigInt(q)
	}
	if isOne(y) {
		return x
	}
	t := &Term{Op: "div", Sort: SInt, Args: []*Term{x, y}}
	if y.Op == "ci" && y.Int.Sign() > 0 {
		if x.Lo != nil {
			q, m := new(big.Int), new(big.Int)
			q.DivMod(x.Lo, y.Int, m)
			t.Lo = q
		}
		if x.Hi != nil {
			q, m := new(big.Int), new(big.Int)
			q.DivMod(x.Hi, y.Int, m)
			t.Hi = q
		}
	}
	return b.intern(t)
}

func (b *Builder) Mod(x, y *Term) *Term {
	if x.Op == "ci" && y.Op == "ci" && y.Int.Sign() != 0 {
		q, m := new(big.Int), new(big.Int)
		q.DivMod(x.Int, y.Int, m)
		return b.BigInt(m)
	}
	if y.Op == "ci" && y.Int.Sign() > 0 {
		if x.Lo != nil && x.Hi != nil && x.Lo.Sign() >= 0 && x.Hi.Cmp(y.Int) < 0 {
			return x
		}
		t := &Term{Op: "mod", Sort: SInt, Args: []*Term{x, y}}
		t.Lo = big.NewInt(0)
		t.Hi = new(big.Int).Sub(y.Int, big.NewInt(1))
		return b.intern(t)
	}
	return b.intern(&Term{Op: "mod", Sort: SInt, Args: []*Term{x, y}})
}

func (b *Builder) Lt(x, y *Term) *Term {
	x, y = b.coerce(x, y)
	if x.Op == "ci" && y.Op == "ci" {
		return b.Bool(x.Int.Cmp(y.Int) < 0)
	}
	if x.Op == "cr" && y.Op == "cr" {
		return b.Bool(x.Rat.Cmp(y.Rat) < 0)
	}
	if x == y {
		return b.False
	}
	if x.Sort == SInt || x.Sort == SReal {
		if x.Hi != nil && y.Lo != nil && x.Hi.Cmp(y.Lo) < 0 {
			return b.True
		}
		if x.Lo != nil && y.Hi != nil && x.Lo.Cmp(y.Hi) >= 0 {
			return b.False
		}
	}
	return b.intern(&Term{Op: "<", Sort: SBool, Args: []*Term{x, y}})
}

func (b *Builder) Le(x, y *Term) *Term {
	x, y = b.coerce(x, y)
	if x.Op == "ci" && y.Op == "ci" {
		return b.Bool(x.Int.Cmp(y.Int) <= 0)
	}
	if x.Op == "cr" && y.Op == "cr" {
		return b.Bool(x.Rat.Cmp(y.Rat) <= 0)
	}
	if x == y {
		return b.True
	}
	if x.Sort == SInt || x.Sort == SReal {
		if x.Hi != nil && y.Lo != nil && x.Hi.Cmp(y.Lo) <= 0 {
			return b.True
		}
		if x.Lo != nil && y.Hi != nil && x.Lo.Cmp(y.Hi) > 0 {
			return b.False
		}
	}
	return b.intern(&Term{Op: "<=", Sort: SBool, Args: []*Term{x, y}})
}

func (b *Builder) Gt(x, y *Term) *Term { return b.Lt(y, x) }
func (b *Builder) Ge(x, y *Term) *Term { return b.Le(y, x) }

// Wrap normalises an unbounded integer term to a Go machine integer of the given width.
func (b *Builder) Wrap(x *Term, bits int, signed bool) *Term {
	lo, hi := TypeRange(bits, signed)
	if x.Lo != nil && x.Hi != nil && x.Lo.Cmp(lo) >= 0 && x.Hi.Cmp(hi) <= 0 {
		return x
	}
	m := new(big.Int).Lsh(big.NewInt(1), uint(bits))
	if !signed {
		return b.Mod(x, b.BigInt(m))
	}
	h := new(big.Int).Lsh(big.NewInt(1), uint(bits-1))
	return b.Sub(b.Mod(b.Add(x, b.BigInt(h)), b.BigInt(m)), b.BigInt(h))
}

func TypeRange(bits int, signed bool) (*big.Int, *big.Int) {
	if !signed {
		hi := new(big.Int).Lsh(big.NewInt(1), uint(bits))
		return big.NewInt(0), hi.Sub(hi, big.NewInt(1))
	}
	h := new(big.Int).Lsh(big.NewInt(1), uint(bits-1))
	return new(big.Int).Neg(h), new(big.Int).Sub(h, big.NewInt(1))
}

// Pow10 returns 10^e as an Int term: constant if e is constant, otherwise an ite table
// over [lo,hi] (the caller guarantees lo <= e <= hi on the path; outside the table the
// value is 10^hi, which the caller's range assumption makes unreachable).
func (b *Builder) Pow10Table(e *Term, lo, hi int, real bool) *Term {
	mk := func(k int) *Term {
		if k >= 0 {
			v := new(big.Int).Exp(big.NewInt(10), big.NewInt(int64(k)), nil)
			if real {
				return b.RatC(new(big.Rat).SetInt(v))
			}
			return b.BigInt(v)
		}
		v := new(big.Int).Exp(big.NewInt(10), big.NewInt(int64(-k)), nil)
		return b.RatC(new(big.Rat).SetFrac(big.NewInt(1), v))
	}
	if e.Op == "ci" {
		return mk(int(e.Int.Int64()))
	}
	if e.Lo != nil && e.Lo.IsInt64() && int(e.Lo.Int64()) > lo {
		lo = int(e.Lo.Int64())
	}
	if e.Hi != nil && e.Hi.IsInt64() && int(e.Hi.Int64()) < hi {
		hi = int(e.Hi.Int64())
	}
	r := mk(hi)
	for k := hi - 1; k >= lo; k-- {
		r = b.Ite(b.Eq(e, b.Int(int64(k))), mk(k), r)
	}
	return r
}

func isZero(x *Term) bool {
	return (x.Op == "ci" && x.Int.Sign() == 0) || (x.Op == "cr" && x.Rat.Sign() == 0)
}
func isOne(x *Term) bool {
	return (x.Op == "ci" && x.Int.Cmp(big.NewInt(1)) == 0) || (x.Op == "cr" && x.Rat.Cmp(big.NewRat(1, 1)) == 0)
}
func minBig(a, c *big.Int) *big.Int {
	if a.Cmp(c) <= 0 {
		return a
	}
	return c
}
func maxBig(a, c *big.Int) *big.Int {
	if a.Cmp(c) >= 0 {
		return a
	}
	return c
}

// ConstInt64 returns the value of a constant Int term.
func (t *Term) ConstInt64() (int64, bool) {
	if t.Op == "ci" && t.Int.IsInt64() {
		return t.Int.Int64(), true
	}
	return 0, false
}

// ---- printing

func (t *Term) atomString() string {
	switch t.Op {
	case "cb":
		if t.B {
			return "true"
		}
		return "false"
	case "ci":
		if t.Int.Sign() < 0 {
			return "(- " + new(big.Int).Neg(t.Int).String() + ")"
		}
		return t.Int.String()
	case "cr":
		n, d := t.Rat.Num(), t.Rat.Denom()
		var s string
		if n.Sign() < 0 {
			s = "(- " + new(big.Int).Neg(n).String() + ".0)"
		} else {
			s = n.String() + ".0"
		}
		if d.Cmp(big.NewInt(1)) != 0 {
			s = "(/ " + s + " " + d.String() + ".0)"
		}
		return s
	case "var", "cs":
		return t.Name
	}
	return ""
}

// Ref is how a term is referred to inside other terms.
func (t *Term) Ref() string {
	if s := t.atomString(); s != "" {
		return s
	}
	return fmt.Sprintf("t%d", t.ID)
}

// Body is the defining expression of a non-atomic term, using Refs for children.
func (t *Term) Body() string {
	var sb strings.Builder
	sb.WriteByte('(')
	switch t.Op {
	case "app":
		sb.WriteString(t.Name)
	case "cb", "ci", "cr", "var", "cs":
		return t.atomString()
	default:
		sb.WriteString(t.Op)
	}
	for _, a := range t.Args {
		sb.WriteByte(' ')
		sb.WriteString(a.Ref())
	}
	sb.WriteByte(')')
	return sb.String()
}

// String renders the expression, truncated (terms are DAGs; a full tree print can be
// exponentially large).
func (t *Term) String() string { return t.StringN(4000) }

func (t *Term) StringN(limit int) string {
	var sb strings.Builder
	t.write(&sb, limit)
	if sb.Len() > limit {
		return sb.String()[:limit] + "..."
	}
	return sb.String()
}

func (t *Term) write(sb *strings.Builder, limit int) {
	if sb.Len() > limit {
		return
	}
	if s := t.atomString(); s != "" {
		sb.WriteString(s)
		return
	}
	sb.WriteByte('(')
	if t.Op == "app" {
		sb.WriteString(t.Name)
	} else {
		sb.WriteString(t.Op)
	}
	for _, a := range t.Args {
		sb.WriteByte(' ')
		a.write(sb, limit)
		if sb.Len() > limit {
			return
		}
	}
	sb.WriteByte(')')
}

// SortedUFs returns declared UFs in name order (deterministic output).
func (b *Builder) SortedUFs() []UFDecl {
	var out []UFDecl
	for _, d := range b.UFs {
		out = append(out, d)
	}
	sort.Slice(out, func(i, j int) bool { return out[i].Name < out[j].Name })
	return out
}
