package sym

import (
	"fmt"
	"go/types"
	"strings"

	"golang.org/x/tools/go/ssa"

	"verif/engine/smt"
)

// Intrinsic is an engine-side summary of a function.
type Intrinsic func(x *Exec, c *CallCtx) Value

type CallCtx struct {
	Fn     *ssa.Function
	Args   []Value
	Common *ssa.CallCommon
	Instr  ssa.Instruction
	Caller *Frame
}

func (c *CallCtx) Pos() string {
	if c.Instr != nil && c.Caller != nil {
		return c.Caller.Fn.Prog.Fset.Position(c.Instr.Pos()).String()
	}
	return ""
}

// prepareCall evaluates callee and arguments of a call site.
func (x *Exec) prepareCall(fr *Frame, c *ssa.CallCommon) (Value, []Value) {
	var args []Value
	if c.IsInvoke() {
		recv := x.concErr(x.get(fr, c.Value))
		args = append(args, recv)
		for _, a := range c.Args {
			args = append(args, x.concErr(x.get(fr, a)))
		}
		return nil, args
	}
	fn := x.get(fr, c.Value)
	for _, a := range c.Args {
		args = append(args, x.concErr(x.get(fr, a)))
	}
	return fn, args
}

func (x *Exec) doCall(fr *Frame, c *ssa.CallCommon, ins ssa.Instruction) Value {
	fn, args := x.prepareCall(fr, c)
	x.curCaller = fr
	x.curInstr = ins
	return x.invokeValue(fn, args, c)
}

// invokeValue performs a call given the evaluated callee (nil for invoke mode).
func (x *Exec) invokeValue(fn Value, args []Value, c *ssa.CallCommon) Value {
	if c != nil && c.IsInvoke() && fn == nil {
		return x.invokeMethod(args[0], c.Method, args[1:], c)
	}
	f, ok := fn.(FuncV)
	if !ok {
		x.Unsupported("call of %T", fn)
	}
	if f.Native != nil {
		return f.Native(x, args)
	}
	if strings.HasPrefix(f.Name, "builtin:") {
		return x.builtin(f.Name[8:], args, c)
	}
	if f.Fn == nil {
		panic(goPanic{Msg: "call of nil function"})
	}
	return x.callStatic(f.Fn, args, f.Bind, c)
}

func (x *Exec) callStatic(fn *ssa.Function, args []Value, bind []Value, c *ssa.CallCommon) Value {
	name := fn.String()
	if fn.Origin() != nil {
		// instantiated generic: look up the summary under the generic's name too
		if in, ok := x.P.Intr[fn.Origin().String()]; ok {
			x.Summ[fn.Origin().String()]++
			return in(x, &CallCtx{Fn: fn, Args: args, Common: c, Instr: x.curInstr, Caller: x.curCaller})
		}
	}
	if in, ok := x.P.Intr[name]; ok {
		x.Summ[name]++
		return in(x, &CallCtx{Fn: fn, Args: args, Common: c, Instr: x.curInstr, Caller: x.curCaller})
	}
	if x.localSumm[name] {
		x.Summ["uf-summary:"+name]++
		return x.ufSummaryCall(fn, args)
	}
	if (x.P.MergeFns[name] || x.localMerge[name]) && !x.Cfg.NoMerge && !x.noMerge {
		x.Summ["merged:"+name]++
		return x.mergeCall(fn, args, bind)
	}
	if x.P.shouldInterpret(fn) {
		return x.CallFunction(fn, args, bind)
	}
	// generic fallbacks by package
	if v, ok := x.P.fallback(x, fn, args, c); ok {
		return v
	}
	x.Unsupported("no summary for external callee %s", name)
	return nil
}

// invokeMethod dispatches an interface method call.
func (x *Exec) invokeMethod(recv Value, m *types.Func, args []Value, c *ssa.CallCommon) Value {
	switch r := recv.(type) {
	case ModelV:
		x.Summ["model:"+r.M.ModelName()+"."+m.Name()]++
		return r.M.Invoke(x, m.Name(), args, c)
	case ErrV:
		return x.errMethod(r, m.Name(), args)
	case IfaceV:
		if r.T == nil {
			panic(goPanic{Msg: "nil interface method call " + m.Name()})
		}
		if mv, ok := r.V.(ModelV); ok {
			x.Summ["model:"+mv.M.ModelName()+"."+m.Name()]++
			return mv.M.Invoke(x, m.Name(), args, c)
		}
		f := x.P.Prog.LookupMethod(r.T, m.Pkg(), m.Name())
		if f == nil {
			x.Unsupported("method %s not found on %v", m.Name(), r.T)
		}
		return x.callStatic(f, append([]Value{r.V}, args...), nil, c)
	case nil:
		panic(goPanic{Msg: "nil interface method call " + m.Name()})
	}
	x.Unsupported("invoke %s on %T", m.Name(), recv)
	return nil
}

// CallMethodByName calls a (possibly promoted) method on a concrete-typed value.
func (x *Exec) CallMethodByName(t types.Type, recv Value, name string, args ...Value) Value {
	var pkg *types.Package
	if n, ok := derefNamed(t); ok {
		pkg = n.Obj().Pkg()
	}
	f := x.P.Prog.LookupMethod(t, pkg, name)
	if f == nil {
		x.Unsupported("method %s not found on %v", name, t)
	}
	return x.callStatic(f, append([]Value{recv}, args...), nil, nil)
}

func derefNamed(t types.Type) (*types.Named, bool) {
	if p, ok := t.(*types.Pointer); ok {
		t = p.Elem()
	}
	n, ok := types.Unalias(t).(*types.Named)
	return n, ok
}

func (x *Exec) builtin(name string, args []Value, c *ssa.CallCommon) Value {
	B := x.B
	switch name {
	case "ssa:deferstack":
		// the defer stack handle of range-over-func lowering: defers are run by the
		// interpreter's own frame bookkeeping
		return OpaqueV{Kind: "deferstack"}
	case "len":
		switch u := args[0].(type) {
		case StrV:
			return IntV{x.stringLen(u)}
		case SliceV:
			if u.Atom != nil {
				return IntV{x.atomLen(u.Atom)}
			}
			return IntV{B.Int(int64(u.Len))}
		case MapV:
			if u.Obj == nil {
				return IntV{B.Int(0)}
			}
			return IntV{B.Int(int64(len(u.Obj.Val.(*MapData).Entries)))}
		case ArrayV:
			return IntV{B.Int(int64(len(u.E)))}
		case PtrV:
			if a, ok := x.load(u).(ArrayV); ok {
				return IntV{B.Int(int64(len(a.E)))}
			}
		}
	case "cap":
		switch u := args[0].(type) {
		case SliceV:
			return IntV{B.Int(int64(u.Cap))}
		case ArrayV:
			return IntV{B.Int(int64(len(u.E)))}
		}
	case "append":
		s := args[0].(SliceV)
		var add []Value
		switch t := args[1].(type) {
		case SliceV:
			if t.Atom != nil || s.Atom != nil {
				x.Unsupported("append with opaque byte strings")
			}
			add = x.sliceElems(t)
		case StrV:
			bs := x.stringToBytes(t).(SliceV)
			add = x.sliceElems(bs)
		default:
			x.Unsupported("append of %T", args[1])
		}
		if len(add) == 0 {
			return s
		}
		if s.Atom != nil {
			x.Unsupported("append to opaque byte string")
		}
		// Always reallocate unless there is spare capacity (Go semantics: in place if it fits).
		if !s.Nil && s.Arr != nil && s.Len+len(add) <= s.Cap {
			arr := s.Arr.Val.(ArrayV)
			e := make([]Value, len(arr.E))
			copy(e, arr.E)
			for i, v := range add {
				e[s.Off+s.Len+i] = v
			}
			s.Arr.Val = ArrayV{e}
			return SliceV{Arr: s.Arr, Off: s.Off, Len: s.Len + len(add), Cap: s.Cap}
		}
		old := x.sliceElems(s)
		n := len(old) + len(add)
		capn := n
		if capn < 2*len(old) {
			capn = 2 * len(old)
		}
		e := make([]Value, capn)
		copy(e, old)
		copy(e[len(old):], add)
		var zero Value
		if len(add) > 0 {
			zero = x.zeroLike(add[0])
		}
		for i := n; i < capn; i++ {
			e[i] = zero
		}
		return SliceV{Arr: x.newObj(ArrayV{e}, "append"), Len: n, Cap: capn}
	case "copy":
		dst := args[0].(SliceV)
		var src []Value
		switch t := args[1].(type) {
		case SliceV:
			src = x.sliceElems(t)
		case StrV:
			src = x.sliceElems(x.stringToBytes(t).(SliceV))
		}
		n := len(src)
		if dst.Len < n {
			n = dst.Len
		}
		if n > 0 {
			arr := dst.Arr.Val.(ArrayV)
			e := make([]Value, len(arr.E))
			copy(e, arr.E)
			tmp := make([]Value, n)
			copy(tmp, src[:n])
			copy(e[dst.Off:], tmp)
			dst.Arr.Val = ArrayV{e}
		}
		return IntV{B.Int(int64(n))}
	case "delete":
		mv := args[0].(MapV)
		if mv.Obj == nil {
			return nil
		}
		md := mv.Obj.Val.(*MapData)
		for i := range md.Entries {
			if x.keyEqual(md.Entries[i].K, args[1]) {
				md.Entries = append(md.Entries[:i:i], md.Entries[i+1:]...)
				break
			}
		}
		return nil
	case "recover":
		if n := len(x.curPanicFrame); n > 0 {
			fr := x.curPanicFrame[n-1]
			if fr.Panicking != nil {
				p := fr.Panicking
				fr.Panicking = nil
				if p.Val != nil {
					return p.Val
				}
				return IfaceV{T: types.Typ[types.String], V: StrV{IsConst: true, S: p.Msg}}
			}
		}
		return IfaceV{}
	case "print", "println":
		return nil
	case "min", "max":
		a := args[0].(IntV)
		r := a.T
		for _, o := range args[1:] {
			ot := o.(IntV).T
			if name == "min" {
				r = B.Ite(B.Lt(ot, r), ot, r)
			} else {
				r = B.Ite(B.Gt(ot, r), ot, r)
			}
		}
		return IntV{r}
	case "ssa:wrapnilchk":
		if n, ok := isNilValue(args[0]); ok && n {
			panic(goPanic{Msg: "nil pointer dereference (method value)"})
		}
		return args[0]
	}
	x.Unsupported("builtin %s with %d arguments", name, len(args))
	return nil
}

func (x *Exec) zeroLike(v Value) Value {
	switch v.(type) {
	case IntV:
		return IntV{x.B.Int(0)}
	case BoolV:
		return BoolV{x.B.False}
	case StrV:
		return StrV{IsConst: true}
	case PtrV:
		return PtrV{}
	case IfaceV:
		return IfaceV{}
	case SliceV:
		return SliceV{Nil: true}
	}
	return nil
}

func (x *Exec) atomLen(a *smt.Term) *smt.Term {
	if s, ok := x.B.StrConstValue(a); ok {
		return x.B.Int(int64(len(s)))
	}
	t := x.B.App("len", smt.SInt, a)
	if !x.lenAxiom[t.ID] {
		x.lenAxiom[t.ID] = true
		x.Assume(x.B.And(x.B.Ge(t, x.B.Int(0)), x.B.Eq(x.B.Eq(t, x.B.Int(0)), x.B.Eq(a, x.B.StrConst("")))), "len>=0")
	}
	return t
}

func (x *Exec) errMethod(e ErrV, name string, args []Value) Value {
	switch name {
	case "Error":
		return StrV{Atom: x.B.Var(fmt.Sprintf("errmsg!%d", e.ID), smt.SStr)}
	case "Is":
		if o, ok := args[0].(ErrV); ok {
			return BoolV{x.B.Bool(o.Root != "" && o.Root == e.Root)}
		}
		return BoolV{x.B.False}
	case "Unwrap", "Cause":
		return IfaceV{}
	case "ABCICode":
		return IntV{x.B.Int(1)}
	case "Codespace":
		return StrV{IsConst: true, S: "codespace"}
	case "Wrap", "Wrapf":
		return x.wrapErr(e, "")
	}
	x.Unsupported("error method %s", name)
	return nil
}

func (x *Exec) wrapErr(e ErrV, msg string) ErrV {
	x.objN++
	return ErrV{Root: e.Root, ID: x.objN, Depth: e.Depth + 1, Msg: msg}
}

func (x *Exec) newErr(root, msg string) ErrV {
	x.objN++
	return ErrV{Root: root, ID: x.objN, Depth: 1, Msg: msg}
}
