package sym

import (
	"fmt"
	"go/types"
	"math/big"
	"strings"

	"golang.org/x/tools/go/ssa"

	"verif/engine/smt"
)

// ---- bank

type BankEntry struct {
	Supply bool
	Key    []*smt.Term // (addr, denom) or (denom)
	Val    *smt.Term
}

type BankState struct {
	Log   []BankEntry
	Calls []string
	seen  map[string]bool
}

type BankModel struct{ env *Env }

func (m *BankModel) ModelName() string { return "BankKeeper" }

func (e *Env) bank() *BankState {
	if e.Bank == nil {
		e.Bank = &BankState{seen: map[string]bool{}}
	}
	return e.Bank
}

func (x *Exec) bankInit(supply bool, key []*smt.Term) *smt.Term {
	B := x.B
	var t *smt.Term
	if supply {
		t = B.App("bank_supply0", smt.SInt, key...)
	} else {
		t = B.App("bank_bal0", smt.SInt, key...)
	}
	if !x.lenAxiom[t.ID] {
		x.lenAxiom[t.ID] = true
		x.Assume(B.Ge(t, B.Int(0)), "bank amounts are non-negative")
		if !supply {
			// a balance never exceeds the supply of its denom
			s := x.bankInit(true, key[1:])
			x.Assume(B.Le(t, s), "balance <= supply")
		}
	}
	return t
}

func (x *Exec) bankReadAt(supply bool, key []*smt.Term, n int) *smt.Term {
	b := x.Env.bank()
	r := x.bankInit(supply, key)
	for i := 0; i < n; i++ {
		e := b.Log[i]
		if e.Supply != supply {
			continue
		}
		eq := x.keysEq(e.Key, key)
		if eq.IsFalse() {
			continue
		}
		r = x.B.Ite(eq, e.Val, r)
	}
	return r
}

func (x *Exec) bankRead(supply bool, key []*smt.Term) *smt.Term {
	return x.bankReadAt(supply, key, len(x.Env.bank().Log))
}

func (x *Exec) bankWrite(supply bool, key []*smt.Term, val *smt.Term) {
	b := x.Env.bank()
	b.Log = append(b.Log, BankEntry{Supply: supply, Key: key, Val: val})
}

func (x *Exec) modAddr(name StrV) *smt.Term {
	B := x.B
	nt := x.strAtomTerm(name)
	if nt == nil {
		x.Unsupported("module name as a content string")
	}
	a := B.App("modaddr", smt.SStr, nt)
	if !x.lenAxiom[a.ID] {
		x.lenAxiom[a.ID] = true
		x.Assume(B.And(B.Eq(B.App("modaddr_inv", smt.SStr, a), nt), B.App("is_module_account", smt.SBool, a),
			B.Not(B.Eq(a, B.StrConst("")))), "module address")
	}
	return a
}

// coinsOf decodes an sdk.Coins value; the bank operations treat the coins one by one, as
// the sdk's subUnlockedCoins/addCoins loops do.
func (x *Exec) coinsOf(v Value) []Value {
	sl, ok := v.(SliceV)
	if !ok {
		x.Unsupported("expected sdk.Coins, got %T", v)
	}
	return x.sliceElems(sl)
}

func (m *BankModel) Invoke(x *Exec, method string, args []Value, c *ssa.CallCommon) Value {
	B := x.B
	b := m.env.bank()
	b.Calls = append(b.Calls, method)
	ok := IfaceV{}
	// the sdk's subUnlockedCoins/addCoins reject coins that are not valid: every amount
	// positive, denominations valid and strictly ascending
	invalid := func(coins []Value) Value {
		var prev *smt.Term
		for _, cv := range coins {
			d, a := x.coinOf(cv)
			amt := x.sdkIntNonNil(a, "bank coins")
			dt := x.strAtomTerm(d)
			bad := B.Or(B.Le(amt, B.Int(0)), B.Not(x.validDenom(d)))
			if prev != nil {
				bad = B.Or(bad, B.Not(x.strLess(prev, dt)))
			}
			if x.Branch(bad) {
				return x.newErr("github.com/cosmos/cosmos-sdk/types/errors.ErrInvalidCoins", "invalid coins")
			}
			prev = dt
		}
		return nil
	}
	move := func(from, to *smt.Term, coins []Value) Value {
		if e := invalid(coins); e != nil {
			return e
		}
		for _, cv := range coins {
			d, a := x.coinOf(cv)
			dt := x.strAtomTerm(d)
			amt := x.sdkIntNonNil(a, "bank transfer")
			fb := x.bankRead(false, []*smt.Term{from, dt})
			if x.Branch(B.Lt(fb, amt)) {
				return x.newErr("github.com/cosmos/cosmos-sdk/types/errors.ErrInsufficientFunds", "insufficient funds")
			}
			x.bankWrite(false, []*smt.Term{from, dt}, B.Sub(fb, amt))
			tb := x.bankRead(false, []*smt.Term{to, dt})
			x.bankWrite(false, []*smt.Term{to, dt}, B.Add(tb, amt))
		}
		return ok
	}
	switch method {
	case "SendCoins":
		return move(x.bytesTerm(args[1]), x.bytesTerm(args[2]), x.coinsOf(args[3]))
	case "SendCoinsFromAccountToModule":
		return move(x.bytesTerm(args[1]), x.modAddr(args[2].(StrV)), x.coinsOf(args[3]))
	case "SendCoinsFromModuleToAccount":
		to := x.bytesTerm(args[2])
		if x.Branch(B.App("bank_blocked", smt.SBool, to)) {
			return x.newErr("github.com/cosmos/cosmos-sdk/types/errors.ErrUnauthorized", "blocked address")
		}
		return move(x.modAddr(args[1].(StrV)), to, x.coinsOf(args[3]))
	case "MintCoins":
		mod := x.modAddr(args[1].(StrV))
		if e := invalid(x.coinsOf(args[2])); e != nil {
			return e
		}
		for _, cv := range x.coinsOf(args[2]) {
			d, a := x.coinOf(cv)
			dt := x.strAtomTerm(d)
			amt := x.sdkIntNonNil(a, "mint")
			s := x.bankRead(true, []*smt.Term{dt})
			x.bankWrite(true, []*smt.Term{dt}, B.Add(s, amt))
			mb := x.bankRead(false, []*smt.Term{mod, dt})
			x.bankWrite(false, []*smt.Term{mod, dt}, B.Add(mb, amt))
		}
		return ok
	case "BurnCoins":
		mod := x.modAddr(args[1].(StrV))
		if e := invalid(x.coinsOf(args[2])); e != nil {
			return e
		}
		for _, cv := range x.coinsOf(args[2]) {
			d, a := x.coinOf(cv)
			dt := x.strAtomTerm(d)
			amt := x.sdkIntNonNil(a, "burn")
			mb := x.bankRead(false, []*smt.Term{mod, dt})
			if x.Branch(B.Lt(mb, amt)) {
				return x.newErr("github.com/cosmos/cosmos-sdk/types/errors.ErrInsufficientFunds", "insufficient funds to burn")
			}
			x.bankWrite(false, []*smt.Term{mod, dt}, B.Sub(mb, amt))
			s := x.bankRead(true, []*smt.Term{dt})
			x.bankWrite(true, []*smt.Term{dt}, B.Sub(s, amt))
		}
		return ok
	case "GetBalance":
		d := args[2].(StrV)
		return x.mkCoin(d, x.bankRead(false, []*smt.Term{x.bytesTerm(args[1]), x.strAtomTerm(d)}))
	case "GetSupply":
		d := args[1].(StrV)
		return x.mkCoin(d, x.bankRead(true, []*smt.Term{x.strAtomTerm(d)}))
	case "SetDenomMetaData":
		return nil
	}
	x.Unsupported("bank keeper method %s", method)
	return nil
}

// ---- sdk.Context, events, gas, logger

type CtxState struct {
	Time TimeV
	Gas  []Value
}

type CtxModel struct{ env *Env }

func (m *CtxModel) ModelName() string { return "sdk.Context" }
func (m *CtxModel) Invoke(x *Exec, method string, args []Value, c *ssa.CallCommon) Value {
	switch method {
	case "Value":
		return IfaceV{}
	case "Done", "Err", "Deadline":
		x.Unsupported("context.Context.%s", method)
	}
	x.Unsupported("context method %s", method)
	return nil
}

func (e *Env) ctxState(x *Exec) *CtxState {
	if e.Ctx == nil {
		e.Ctx = &CtxState{Time: x.nondetTime("blocktime").(TimeV)}
	}
	return e.Ctx
}

type NopModel struct{ name string }

func (m *NopModel) ModelName() string { return m.name }
func (m *NopModel) Invoke(x *Exec, method string, args []Value, c *ssa.CallCommon) Value {
	if c != nil && c.Method != nil {
		sig := c.Method.Type().(*types.Signature)
		switch sig.Results().Len() {
		case 0:
			return nil
		case 1:
			if types.IsInterface(sig.Results().At(0).Type()) && m.name == "Logger" {
				return ModelV{m}
			}
			return x.zero(sig.Results().At(0).Type())
		}
		return x.zero(sig.Results())
	}
	return nil
}

type GasModel struct{ env *Env }

func (m *GasModel) ModelName() string { return "GasMeter" }
func (m *GasModel) Invoke(x *Exec, method string, args []Value, c *ssa.CallCommon) Value {
	switch method {
	case "ConsumeGas":
		x.Effects = append(x.Effects, Effect{Kind: "gas", Vals: []Value{args[0]}})
		return nil
	case "GasConsumed", "GasConsumedToLimit", "Limit", "GasRemaining":
		return IntV{x.B.Int(0)}
	}
	x.Unsupported("gas meter method %s", method)
	return nil
}

type EventMgrModel struct{ env *Env }

func (m *EventMgrModel) ModelName() string { return "EventManager" }
func (m *EventMgrModel) Invoke(x *Exec, method string, args []Value, c *ssa.CallCommon) Value {
	x.Unsupported("event manager invoke %s", method)
	return nil
}

type RecordedCall struct {
	Name string
	Args []Value
	Rets []Value
}

func registerEnv(p *Program) {
	T := sdkTypes
	// ormlist.Paginate(pageRequest): an opaque list option carrying the request
	p.Intr["github.com/cosmos/cosmos-sdk/orm/model/ormlist.Paginate"] = func(x *Exec, c *CallCtx) Value {
		op := OpaqueV{Kind: "orm-paginate", Data: c.Args[0]}
		if pp, ok := c.Args[0].(PtrV); ok && pp.Obj != nil {
			if pt, ok := c.Fn.Signature.Params().At(0).Type().(*types.Pointer); ok {
				if st, ok := pt.Elem().Underlying().(*types.Struct); ok {
					// generated pulsar structs: state, sizeCache, unknownFields, then the fields
					for i := 0; i < st.NumFields(); i++ {
						op.Names = append(op.Names, st.Field(i).Name())
					}
				}
			}
		}
		return IfaceV{T: c.Fn.Signature.Results().At(0).Type(), V: op}
	}
	p.Intr[T+".UnwrapSDKContext"] = func(x *Exec, c *CallCtx) Value {
		if mv, ok := c.Args[0].(ModelV); ok {
			if _, ok := mv.M.(*CtxModel); ok {
				return mv
			}
		}
		x.Unsupported("UnwrapSDKContext of %T", c.Args[0])
		return nil
	}
	p.Intr[T+".WrapSDKContext"] = func(x *Exec, c *CallCtx) Value { return c.Args[0] }
	p.Intr["("+T+".Context).BlockTime"] = func(x *Exec, c *CallCtx) Value { return x.Env.ctxState(x).Time }
	p.Intr["("+T+".Context).EventManager"] = func(x *Exec, c *CallCtx) Value {
		return ModelV{&EventMgrModel{env: x.Env}}
	}
	p.Intr["("+T+".Context).GasMeter"] = func(x *Exec, c *CallCtx) Value { return ModelV{&GasModel{env: x.Env}} }
	p.Intr["("+T+".Context).Logger"] = func(x *Exec, c *CallCtx) Value { return ModelV{&NopModel{name: "Logger"}} }
	p.Intr["("+T+".Context).BlockHeight"] = func(x *Exec, c *CallCtx) Value {
		return IntV{x.B.Var("blockheight", smt.SInt)}
	}
	p.Intr["("+T+".Context).Context"] = func(x *Exec, c *CallCtx) Value { return c.Args[0] }
	p.Intr["("+T+".Context).Value"] = func(x *Exec, c *CallCtx) Value { return IfaceV{} }
	emit := func(x *Exec, c *CallCtx) Value {
		ev := c.Args[1]
		if iv, ok := ev.(IfaceV); ok {
			ev = iv.V
		}
		// snapshot of the event message at emission time
		if pv, ok := ev.(PtrV); ok && pv.Obj != nil {
			snap := x.newObj(x.load(pv), "event")
			x.Env.Events = append(x.Env.Events, IfaceV{T: c.Args[1].(IfaceV).T, V: PtrV{Obj: snap}})
		} else {
			x.Env.Events = append(x.Env.Events, c.Args[1])
		}
		return IfaceV{}
	}
	p.Intr["(*"+T+".EventManager).EmitTypedEvent"] = emit
	p.Intr["(*"+T+".EventManager).EmitEvent"] = func(x *Exec, c *CallCtx) Value { return nil }
	p.Intr["(*"+T+".EventManager).EmitEvents"] = func(x *Exec, c *CallCtx) Value { return nil }
	p.Intr["(*"+T+".EventManager).EmitTypedEvents"] = func(x *Exec, c *CallCtx) Value {
		x.Unsupported("EmitTypedEvents")
		return nil
	}
	p.Intr["github.com/cosmos/cosmos-sdk/telemetry.ModuleMeasureSince"] = func(x *Exec, c *CallCtx) Value { return nil }
	p.Intr["github.com/cosmos/cosmos-sdk/telemetry.MeasureSince"] = func(x *Exec, c *CallCtx) Value { return nil }
	p.Intr["github.com/cosmos/cosmos-sdk/telemetry.Now"] = func(x *Exec, c *CallCtx) Value {
		x.Effects = append(x.Effects, Effect{Kind: "wallclock", Name: "telemetry.Now"})
		return x.wallClock()
	}
}

func (x *Exec) wallClock() Value {
	x.wallN++
	s := x.B.Var(fmt.Sprintf("wallclock_sec!%d", x.wallN), smt.SInt)
	n := x.boundedVar(fmt.Sprintf("wallclock_nsec!%d", x.wallN), bigInt(0), bigInt(999999999), "nanos")
	return TimeV{Sec: s, Nsec: n}
}

// ---- zzverif environment primitives

func unwrapIface(v Value) Value {
	if iv, ok := v.(IfaceV); ok {
		return iv.V
	}
	return v
}

func (x *Exec) variadic(v Value) []Value {
	if sl, ok := v.(SliceV); ok {
		return x.sliceElems(sl)
	}
	return nil
}

func (x *Exec) zzverifEnv(name string, c *CallCtx) (Value, bool) {
	B := x.B
	a := c.Args
	e := x.Env
	switch name {
	case "OrmStore":
		return ModelV{&StoreModel{env: e}}, true
	case "BankKeeper":
		return ModelV{&BankModel{env: e}}, true
	case "Context":
		e.ctxState(x)
		return ModelV{&CtxModel{env: e}}, true
	case "SetBlockTime":
		e.ctxState(x).Time = unwrapIface(a[0]).(TimeV)
		return nil, true
	case "ModuleAddr":
		return SliceV{Atom: x.modAddr(a[0].(StrV))}, true
	case "IsModuleAccount":
		return BoolV{B.App("is_module_account", smt.SBool, x.bytesTerm(a[0]))}, true
	case "OrmInvariant":
		f, ok := unwrapIface(a[1]).(FuncV)
		if !ok {
			x.Unsupported("OrmInvariant needs a function")
		}
		e.RowInv[x.constStr(a[0], "table name")] = f
		return nil, true
	case "OrmOnTouch":
		f, ok := unwrapIface(a[1]).(FuncV)
		if !ok {
			x.Unsupported("OrmOnTouch needs a function")
		}
		t := x.constStr(a[0], "table name")
		e.OnTouch[t] = append(e.OnTouch[t], f)
		return nil, true
	case "OrmBegin":
		e.snapshot = e.checkpoint()
		return nil, true
	case "EffectsSnapshot":
		x.effectsSnapshot()
		return nil, true
	case "SameEffects":
		return BoolV{x.sameEffects()}, true
	case "ProcessState":
		x.markProcessState(unwrapIface(a[0]), 0)
		return nil, true
	case "HiddenWrites":
		return IntV{B.Int(int64(x.countEffects("hidden-write")))}, true
	case "WallClockReads":
		return IntV{B.Int(int64(x.countEffects("wallclock", "nondeterminism")))}, true
	case "MapRanges":
		return IntV{B.Int(int64(x.countEffects("map-range")))}, true
	case "HiddenWriteName":
		for _, ef := range x.Effects {
			if ef.Kind == "hidden-write" {
				return StrV{IsConst: true, S: ef.Name}, true
			}
		}
		return StrV{IsConst: true}, true
	case "OrmRollbackIf":
		if x.BranchBool(a[0]) {
			if e.snapshot == nil {
				e.snapshot = &envCheckpoint{logLens: map[string]int{}, inserts: map[string]int{}}
			}
			e.rollback(e.snapshot)
		}
		return nil, true
	case "OrmExists0", "OrmExists1":
		ts := e.tableByName(x, x.constStr(a[0], "table name"))
		k := x.keyTerms(x.variadic(a[1]))
		ts.touch(x, k)
		if name == "OrmExists0" {
			return BoolV{ts.existsAt(x, k, x.snapLen(ts))}, true
		}
		return BoolV{ts.existsNow(x, k)}, true
	case "OrmRow0", "OrmRow1":
		ts := e.tableByName(x, x.constStr(a[0], "table name"))
		k := x.keyTerms(x.variadic(a[2]))
		ts.touch(x, k)
		n := len(ts.Log)
		if name == "OrmRow0" {
			n = x.snapLen(ts)
		}
		row := ts.rowValue(x, ts.rowLeavesAt(x, k, n))
		x.store(unwrapIface(a[1]), row)
		return BoolV{ts.existsAt(x, k, n)}, true
	case "OrmLookup0", "OrmLookup1":
		// unique-index lookup: OrmLookup0(table, indexFieldsCamel, dst, vals...) -> found
		ts := e.tableByName(x, x.constStr(a[0], "table name"))
		ip := (&TableModel{env: e}).indexByMethod(x, ts, x.constStr(a[1], "index name"))
		vals := x.keyTerms(x.variadic(a[3]))
		var found *smt.Term
		var pk []*smt.Term
		if name == "OrmLookup0" && x.snapLen(ts) == 0 {
			pk = ts.lookup0(x, ip, vals)
			idx := ts.Meta.Indexes[ip]
			cur := ts.indexVals0(x, idx, pk)
			found = ts.exists0(x, pk)
			for i := range vals {
				found = B.And(found, B.Eq(cur[i], vals[i]))
			}
		} else if name == "OrmLookup0" {
			x.Unsupported("OrmLookup0 after setup writes")
		} else {
			found, pk = ts.findByIndex(x, ip, vals)
		}
		ts.touch(x, pk)
		n := len(ts.Log)
		if name == "OrmLookup0" {
			n = 0
		}
		row := ts.rowValue(x, ts.rowLeavesAt(x, pk, n))
		x.store(unwrapIface(a[2]), row)
		return BoolV{found}, true
	case "OrmSeq0":
		ts := e.tableByName(x, x.constStr(a[0], "table name"))
		return IntV{ts.seq0(x)}, true
	case "OrmSplit":
		// OrmSplit(table, key...): one path per identity of the given (skolem) key with a key
		// of the table that this execution wrote, plus one for "none of them": obligations
		// about the skolem key are then decided without a case analysis inside the solver
		ts := e.tableByName(x, x.constStr(a[0], "table name"))
		k := x.keyTerms(x.variadic(a[1]))
		seen := map[string]bool{}
		for _, le := range ts.Log[x.snapLen(ts):] {
			sig := ""
			for _, t := range le.PK {
				sig += t.Ref() + ","
			}
			if seen[sig] {
				continue
			}
			seen[sig] = true
			eq := x.keysEq(le.PK, k)
			if eq.IsFalse() || eq.IsTrue() {
				continue
			}
			if x.Branch(eq) {
				break
			}
		}
		return nil, true
	case "OrmWrites":
		ts := e.tableByName(x, x.constStr(a[0], "table name"))
		return IntV{B.Int(int64(len(ts.Log) - x.snapLen(ts)))}, true
	case "OrmWritten":
		// OrmWritten(table, i, pre, post) -> (preExists, postExists) of the i-th write's key
		x.Unsupported("OrmWritten")
	case "AllWritten2":
		// AllWritten2(table, f(pre *T, preExists bool, post *T, postExists bool) bool):
		// conjunction over the distinct written keys
		ts := e.tableByName(x, x.constStr(a[0], "table name"))
		f, ok := unwrapIface(a[1]).(FuncV)
		if !ok {
			x.Unsupported("AllWritten2 needs a function")
		}
		n0, n1 := x.snapLen(ts), len(ts.Log)
		all := B.True
		for _, le := range ts.Log[n0:] {
			k := le.PK
			pre := x.newObj(ts.rowValue(x, ts.rowLeavesAt(x, k, n0)), ts.Meta.Name+"@pre")
			post := x.newObj(ts.rowValue(x, ts.rowLeavesAt(x, k, n1)), ts.Meta.Name+"@post")
			r := x.invokeValue(f, []Value{PtrV{Obj: pre}, BoolV{ts.existsAt(x, k, n0)}, PtrV{Obj: post}, BoolV{ts.existsAt(x, k, n1)}}, nil)
			all = B.And(all, r.(BoolV).T)
		}
		return BoolV{all}, true
	case "OrmDeletes":
		ts := e.tableByName(x, x.constStr(a[0], "table name"))
		n := 0
		for _, le := range ts.Log[x.snapLen(ts):] {
			if !le.Exists {
				n++
			}
		}
		return IntV{B.Int(int64(n))}, true
	case "SumDelta", "SumTouched0", "AllWritten", "AllTouched0":
		ts := e.tableByName(x, x.constStr(a[0], "table name"))
		f, ok := unwrapIface(a[1]).(FuncV)
		if !ok {
			x.Unsupported("%s needs a function", name)
		}
		return x.foldRows(name, ts, f), true
	case "BankBal0", "BankBal1":
		key := []*smt.Term{x.bytesTerm(a[0]), x.strAtomTerm(a[1].(StrV))}
		if name == "BankBal0" {
			return RealV{B.ToReal(x.bankReadAt(false, key, 0))}, true
		}
		return RealV{B.ToReal(x.bankRead(false, key))}, true
	case "BankSupply0", "BankSupply1":
		key := []*smt.Term{x.strAtomTerm(a[0].(StrV))}
		if name == "BankSupply0" {
			return RealV{B.ToReal(x.bankReadAt(true, key, 0))}, true
		}
		return RealV{B.ToReal(x.bankRead(true, key))}, true
	case "BankCalls":
		return IntV{B.Int(int64(len(e.bank().Calls)))}, true
	case "BankBlocked":
		return BoolV{B.App("bank_blocked", smt.SBool, x.bytesTerm(a[0]))}, true
	case "EventCount":
		return IntV{B.Int(int64(len(e.Events)))}, true
	case "EventAt":
		i := x.concreteInt(a[0], "event index")
		if i < 0 || i >= len(e.Events) {
			return BoolV{B.False}, true
		}
		dst, ok := a[1].(IfaceV)
		if !ok {
			x.Unsupported("EventAt destination")
		}
		ev, ok := e.Events[i].(IfaceV)
		if !ok || !types.Identical(ev.T, dst.T) {
			return BoolV{B.False}, true
		}
		x.store(dst.V, x.load(ev.V))
		return BoolV{B.True}, true
	case "QIf":
		return RealV{B.Ite(a[0].(BoolV).T, unwrapIface(a[1]).(RealV).T, unwrapIface(a[2]).(RealV).T)}, true
	case "SIf":
		ta, tb := x.strAtomTerm(a[1].(StrV)), x.strAtomTerm(a[2].(StrV))
		if ta == nil || tb == nil {
			x.Unsupported("SIf on content strings")
		}
		return StrV{Atom: B.Ite(a[0].(BoolV).T, ta, tb)}, true
	case "BIf":
		return BoolV{B.Ite(a[0].(BoolV).T, a[1].(BoolV).T, a[2].(BoolV).T)}, true
	case "TimeLe", "TimeLt", "TimeEq":
		t1, t2 := unwrapIface(a[0]).(TimeV), unwrapIface(a[1]).(TimeV)
		lt := B.Or(B.Lt(t1.Sec, t2.Sec), B.And(B.Eq(t1.Sec, t2.Sec), B.Lt(t1.Nsec, t2.Nsec)))
		eq := B.And(B.Eq(t1.Sec, t2.Sec), B.Eq(t1.Nsec, t2.Nsec))
		switch name {
		case "TimeLt":
			return BoolV{lt}, true
		case "TimeEq":
			return BoolV{eq}, true
		}
		return BoolV{B.Or(lt, eq)}, true
	case "ToLowerIdem":
		return nil, true
	case "StrLess":
		sa, sb := a[0].(StrV), a[1].(StrV)
		if sa.IsConst && sb.IsConst {
			return BoolV{B.Bool(sa.S < sb.S)}, true
		}
		return BoolV{x.strLess(x.scalarTerm(sa), x.scalarTerm(sb))}, true
	case "ValidSdkDenom":
		return BoolV{x.validDenom(a[0].(StrV))}, true
	case "HasPrefixStr":
		s, p := a[0].(StrV), a[1].(StrV)
		return BoolV{x.strPrefix(x.strAtomTerm(s), x.strAtomTerm(p))}, true
	}
	if strings.HasPrefix(name, "Pulsar") || strings.HasPrefix(name, "Gogo") {
		return x.copyMessage(a[0], a[1]), true
	}
	return nil, false
}

func (x *Exec) snapLen(ts *TableState) int {
	if x.Env.snapshot == nil {
		return 0
	}
	return x.Env.snapshot.logLens[ts.Key]
}

// foldRows implements the sum/all primitives over the finite sets the path knows about.
//
//	SumDelta(table, f)     = Σ over distinct written keys k of  f(row1(k))·[exists1] − f(row0(k))·[exists0]
//	SumTouched0(table, f)  = Σ over distinct touched keys k of  f(row0(k))·[exists0]
//	AllWritten(table, g)   = ∧ over written keys k with exists1(k) of g(row1(k))
//	AllTouched0(table, g)  = ∧ over touched keys k with exists0(k) of g(row0(k))
func (x *Exec) foldRows(kind string, ts *TableState, f FuncV) Value {
	B := x.B
	n0 := x.snapLen(ts)
	n1 := len(ts.Log)
	var keys [][]*smt.Term
	switch kind {
	case "SumDelta", "AllWritten":
		for _, e := range ts.Log[n0:] {
			keys = append(keys, e.PK)
		}
	default:
		keys = append(keys, ts.Keys...)
	}
	call := func(k []*smt.Term, n int) Value {
		row := ts.rowValue(x, ts.rowLeavesAt(x, k, n))
		obj := x.newObj(row, ts.Meta.Name)
		return x.invokeValue(f, []Value{PtrV{Obj: obj}}, nil)
	}
	isSum := strings.HasPrefix(kind, "Sum")
	var sum *smt.Term = B.RealInt(0)
	var all *smt.Term = B.True
	for i, k := range keys {
		// first occurrence guard: no earlier key in the list equals k
		first := B.True
		dup := false
		for _, k2 := range keys[:i] {
			eq := x.keysEq(k, k2)
			if eq.IsTrue() {
				dup = true
				break
			}
			first = B.And(first, B.Not(eq))
		}
		if dup {
			continue
		}
		switch kind {
		case "SumDelta":
			v1 := call(k, n1).(RealV).T
			v0 := call(k, n0).(RealV).T
			d := B.Sub(B.Ite(ts.existsAt(x, k, n1), v1, B.RealInt(0)), B.Ite(ts.existsAt(x, k, n0), v0, B.RealInt(0)))
			sum = B.Add(sum, B.Ite(first, d, B.RealInt(0)))
		case "SumTouched0":
			v0 := call(k, n0).(RealV).T
			sum = B.Add(sum, B.Ite(B.And(first, ts.existsAt(x, k, n0)), v0, B.RealInt(0)))
		case "AllWritten":
			g := call(k, n1).(BoolV).T
			all = B.And(all, B.Implies(ts.existsAt(x, k, n1), g))
		case "AllTouched0":
			g := call(k, n0).(BoolV).T
			all = B.And(all, B.Implies(ts.existsAt(x, k, n0), g))
		}
	}
	if isSum {
		return RealV{sum}
	}
	return BoolV{all}
}

// copyMessage copies a message field by field between the gogo and pulsar structs of the
// same proto message (matching exported field names).
func (x *Exec) copyMessage(dst, src Value) Value {
	d, ok1 := dst.(IfaceV)
	s, ok2 := src.(IfaceV)
	if !ok1 || !ok2 {
		x.Unsupported("message copy needs two message pointers")
	}
	sv := x.load(s.V)
	x.store(d.V, x.convertMessage(sv, s.T.(*types.Pointer).Elem(), d.T.(*types.Pointer).Elem()))
	return nil
}

func (x *Exec) convertMessage(v Value, from, to types.Type) Value {
	fs := from.Underlying().(*types.Struct)
	tst := to.Underlying().(*types.Struct)
	sv := v.(StructV)
	out := make([]Value, tst.NumFields())
	for i := 0; i < tst.NumFields(); i++ {
		tf := tst.Field(i)
		out[i] = x.zero(tf.Type())
		if !tf.Exported() {
			continue
		}
		for j := 0; j < fs.NumFields(); j++ {
			ff := fs.Field(j)
			if ff.Name() != tf.Name() {
				continue
			}
			out[i] = x.convertField(sv.F[j], ff.Type(), tf.Type())
		}
	}
	return StructV{out}
}

func (x *Exec) convertField(v Value, from, to types.Type) Value {
	if types.Identical(from, to) {
		return v
	}
	// string <-> sdkmath.Int (gogoproto customtype): "" is the nil Int
	if typeName(to) == sdkmathPkg+".Int" {
		if s, ok := v.(StrV); ok {
			return x.strToSdkInt(s)
		}
	}
	if typeName(from) == sdkmathPkg+".Int" {
		if iv, ok := v.(SdkIntV); ok {
			if iv.Nil {
				return StrV{IsConst: true, S: ""}
			}
			return x.intToStr(iv.T)
		}
	}
	fp, ok1 := from.Underlying().(*types.Pointer)
	tp, ok2 := to.Underlying().(*types.Pointer)
	if ok1 && ok2 {
		p := v.(PtrV)
		if p.Obj == nil {
			return PtrV{}
		}
		tn := typeName(tp.Elem())
		if tn == "time.Time" {
			// timestamp message -> *time.Time
			sv := x.loadRaw(p).(StructV)
			n := len(sv.F)
			return PtrV{Obj: x.newObj(TimeV{Sec: sv.F[n-2].(IntV).T, Nsec: sv.F[n-1].(IntV).T}, "time"), Cond: p.Cond}
		}
		if typeName(fp.Elem()) == "time.Time" {
			tv := x.loadRaw(p).(TimeV)
			z := x.zero(tp.Elem()).(StructV)
			n := len(z.F)
			z.F[n-2] = IntV{tv.Sec}
			z.F[n-1] = IntV{tv.Nsec}
			return PtrV{Obj: x.newObj(z, "timestamp"), Cond: p.Cond}
		}
		return PtrV{Obj: x.newObj(x.convertMessage(x.loadRaw(p), fp.Elem(), tp.Elem()), "msg"), Cond: p.Cond}
	}
	_, s1 := from.Underlying().(*types.Struct)
	_, s2 := to.Underlying().(*types.Struct)
	if s1 && s2 {
		return x.convertMessage(v, from, to)
	}
	// same underlying scalar kinds (enums, named strings, []byte vs sdk.AccAddress)
	return v
}

// strToSdkInt decodes a stored integer amount. Invalid literals cannot be stored (the
// customtype's Unmarshal rejects them), so a non-empty string is assumed to be a literal.
func (x *Exec) strToSdkInt(s StrV) Value {
	B := x.B
	if s.IsConst {
		if s.S == "" {
			return SdkIntV{Nil: true}
		}
		v, ok := new(big.Int).SetString(s.S, 10)
		if !ok {
			x.Unsupported("stored integer amount %q is not a literal", s.S)
		}
		return SdkIntV{T: B.BigInt(v)}
	}
	if s.Atom == nil {
		x.Unsupported("integer amount as a content string")
	}
	if x.Branch(B.Eq(s.Atom, B.StrConst(""))) {
		return SdkIntV{Nil: true}
	}
	x.AssumeLocal(x.decIsIntLiteral(s.Atom), "stored integer amounts are integer literals")
	neg, mag := x.decAtomParts(s.Atom)
	x.linkMag(mag)
	t := B.Ite(neg, B.Neg(B.Floor(mag)), B.Floor(mag))
	// the customtype's Unmarshal also rejects integers wider than 256 bits
	x.AssumeLocal(B.And(B.Le(B.BigInt(new(big.Int).Neg(max256)), t), B.Le(t, B.BigInt(max256))), "stored integer amounts fit 256 bits")
	return SdkIntV{T: t}
}
