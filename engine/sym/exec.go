package sym

import (
	"fmt"
	"go/types"
	"math/big"
	"os"
	"regexp"
	"runtime/debug"
	"sort"
	"strings"
	"time"

	"golang.org/x/tools/go/ssa"

	"verif/engine/smt"
)

// Decision is one recorded choice point of a path.
type Decision struct {
	Val   int  // chosen alternative
	N     int  // arity (2 for branches)
	Fixed bool // no alternative remains to be explored from here
}

type pathExit struct {
	Status string // ok | assume | panic | unwind | unsupported | infeasible
	Msg    string
}

type goPanic struct {
	Val Value
	Msg string
}

// Obligation result on one path.
type ObResult struct {
	Name    string
	Verdict string // unsat | sat | unknown
	Solver  string
	Model   map[string]string
	Full    map[string]string `json:",omitempty"`
	Path    []int
	Detail  string
}

type NondetRec struct {
	Label string
	Kind  string
	Terms []*smt.Term
}

type Frame struct {
	Fn     *ssa.Function
	Regs   map[ssa.Value]Value
	Defers []deferred
	Visits map[int]int
	Result Value
	// panic state while running defers
	Panicking *goPanic
	Cur       ssa.Instruction
}

type deferred struct {
	Call ssa.CallCommon
	Fn   Value
	Args []Value
}

// Exec is the state of one path execution.
type Exec struct {
	P      *Program
	B      *smt.Builder
	S      *smt.Session
	Cfg    *Config
	prefix []Decision
	pos    int
	Trace  []Decision
	PC     []*smt.Term
	objN   int
	gl     map[*ssa.Global]*Object
	initFr map[*ssa.Package]*Frame

	Nondets     []NondetRec
	Obs         []ObResult
	Reached     map[string]bool
	Funcs       map[string]int // SSA functions executed -> instruction count
	Summ        map[string]int // summaries / models hit
	Assumes     map[string]int // assume label -> times it cut the path (0/1 per path)
	Steps       int
	depth       int
	Env         *Env
	Effects     []Effect
	Notes       []string
	evalExtra   []*smt.Term // terms whose model values are wanted on sat
	evalNames   []string
	feasUnknown int

	W                     *Worker
	curCaller             *Frame
	curInstr              ssa.Instruction
	curPanicFrame         []*Frame
	errIDs                map[string]int
	lenAxiom              map[int]bool
	pow10Of               map[int]*smt.Term
	iterN                 int
	wallN                 int
	runeN                 int
	frames                []*Frame
	ForkSites             map[string]int
	SlowSites             map[string]float64
	SlowPath              []int
	merge                 *mergeState
	started               time.Time
	constDone             int
	constMemo             map[int]*smt.Term
	contentAtoms          []*smt.Term
	loopAssume            int
	loopAssumeFn          string
	localMerge            map[string]bool
	localSumm             map[string]bool
	civilN                int
	regexSeen             map[string]*regexp.Regexp
	inInit                int
	linked                map[int]bool
	noMerge               bool
	formattedBasketDenoms []*smt.Term
}

type Config struct {
	MaxSteps    int
	LoopBound   int
	MaxDepth    int
	Bounds      map[string]int
	Solvers     []string
	TimeoutMs   int
	Tier        string
	NoFeasCheck bool
	NoMerge     bool
	FullModels  bool
	DebugPath   []int
	Debug       bool
	BudgetS     int
	PathBudgetS int
	Transcript  string
}

func (c *Config) Bound(name string, def int) int {
	if v, ok := c.Bounds[name]; ok {
		return v
	}
	return def
}

func (x *Exec) newObj(v Value, label string) *Object {
	x.objN++
	return &Object{ID: x.objN, Val: v, Label: label, Proc: x.inInit > 0}
}

// procWrite records a write to per-process state outside package initialisation.
func (x *Exec) procWrite(o *Object) {
	if o != nil && o.Proc && x.inInit == 0 {
		x.Effects = append(x.Effects, Effect{Kind: "hidden-write", Name: o.Label})
	}
}

func (x *Exec) exit(status, msg string) {
	panic(pathExit{status, msg})
}

func (x *Exec) Unsupported(format string, a ...interface{}) {
	if os.Getenv("GOSYM_STACK") != "" {
		fmt.Fprintf(os.Stderr, "UNSUPPORTED %s\n%s\n", fmt.Sprintf(format, a...), debug.Stack())
	}
	x.exit("unsupported", fmt.Sprintf(format, a...))
}

// ---- decisions

// syncConstAxioms gives every interned string constant its concrete meaning under the
// uninterpreted string functions (length, decimal parse), so that constants reached
// through ite terms are not left unconstrained.
func (x *Exec) syncConstAxioms() {
	for x.constDone < len(x.B.ConstL) {
		s := x.B.ConstL[x.constDone]
		x.constDone++
		c := x.B.Consts[s]
		B := x.B
		ax := []*smt.Term{B.Eq(B.App("len", smt.SInt, c), B.Int(int64(len(s))))}
		str := s
		if str == "" {
			str = "0"
		}
		d, ok := parseDecimalConst(str)
		if s == "" {
			// the raw empty string does not parse; NewDecFromString maps it to "0" first
			ax = append(ax, B.Not(B.App("dec_ok", smt.SBool, c)), B.Not(B.App("bech32_ok", smt.SBool, c)))
		} else if !ok {
			ax = append(ax, B.Not(B.App("dec_ok", smt.SBool, c)))
		} else {
			mag := new(big.Rat).SetInt(d.coeff)
			if d.exp >= 0 {
				mag.Mul(mag, new(big.Rat).SetInt(pow10(d.exp)))
			} else {
				mag.Quo(mag, new(big.Rat).SetInt(pow10(-d.exp)))
			}
			ax = append(ax, B.App("dec_ok", smt.SBool, c), B.Eq(B.App("dec_form", smt.SInt, c), B.Int(int64(d.form))),
				B.Eq(B.App("dec_neg", smt.SBool, c), B.Bool(d.neg)), B.Eq(B.App("dec_coeff", smt.SInt, c), B.BigInt(d.coeff)), B.Eq(B.App("dec_mag", smt.SReal, c), B.RatC(mag)),
				B.Eq(B.App("dec_exp", smt.SInt, c), B.Int(int64(d.exp))),
				B.Eq(B.App("dec_plain", smt.SBool, c), B.Bool(!strings.ContainsAny(s, "eE"))))
		}
		for pattern, re := range x.regexSeen {
			ax = append(ax, B.Eq(B.App(patternName(pattern), smt.SBool, c), B.Bool(re.MatchString(s))))
		}
		t := B.And(ax...)
		x.PC = append(x.PC, t)
		x.S.Assert(t)
	}
}

// Assume adds c to the path condition; the path ends if it becomes infeasible.
func (x *Exec) Assume(c *smt.Term, label string) {
	x.syncConstAxioms()
	if c.IsTrue() {
		return
	}
	if c.IsFalse() {
		x.Assumes[label]++
		x.exit("assume", label)
	}
	x.PC = append(x.PC, c)
	x.S.Assert(c)
}

// AssumeChecked is Assume followed by a feasibility check (used by harness-level Assume).
func (x *Exec) AssumeChecked(c *smt.Term, label string) {
	x.Assume(c, label)
	if x.pos < len(x.prefix) {
		return // inside the replayed prefix feasibility is already known
	}
	if x.S.Check() == smt.Unsat {
		x.Assumes[label]++
		x.exit("assume", label)
	}
}

// Branch decides a symbolic condition, forking the exploration if both sides are feasible.
func (x *Exec) Branch(c *smt.Term) bool {
	if c.IsTrue() {
		return true
	}
	if c.IsFalse() {
		return false
	}
	if x.merge != nil {
		return x.mergeBranch(c)
	}
	x.checkPathBudget()
	x.syncConstAxioms()
	if x.pos < len(x.prefix) {
		d := x.prefix[x.pos]
		x.pos++
		x.Trace = append(x.Trace, d)
		if x.Cfg.Debug {
			cs := c.String()
			if len(cs) > 400 {
				cs = cs[:400] + "..."
			}
			fmt.Printf("DECISION %d = %d at %s\n   cond %s\n", x.pos-1, d.Val, x.site(), cs)
		}
		if d.Val == 1 {
			x.Assume(c, "branch")
			return true
		}
		x.Assume(x.B.Not(c), "branch")
		return false
	}
	x.pos++
	nc := x.B.Not(c)
	if x.Cfg.Debug {
		fmt.Printf("NEW BRANCH %d at %s steps=%d terms=%d\n", x.pos-1, x.site(), x.Steps, x.B.NumTerms())
	}
	t0 := time.Now()
	defer func() {
		if d := time.Since(t0).Seconds(); d > 1.0 {
			x.SlowSites[x.site()] += d
			if d > 4.0 && x.SlowPath == nil {
				x.SlowPath = x.tracePath()
			}
		}
	}()
	rT := x.S.Check(c)
	x.checkSolverAlive()
	if rT == smt.Unsat {
		x.Trace = append(x.Trace, Decision{Val: 0, N: 2, Fixed: true})
		x.Assume(nc, "branch")
		return false
	}
	if rT == smt.Unknown {
		x.feasUnknown++
	}
	rF := x.S.Check(nc)
	x.checkSolverAlive()
	if rF == smt.Unsat {
		x.Trace = append(x.Trace, Decision{Val: 1, N: 2, Fixed: true})
		x.Assume(c, "branch")
		return true
	}
	if rF == smt.Unknown {
		x.feasUnknown++
	}
	x.Trace = append(x.Trace, Decision{Val: 1, N: 2, Fixed: false})
	x.ForkSites[x.site()]++
	x.Assume(c, "branch")
	return true
}

func (x *Exec) checkSolverAlive() {
	if x.S.P.Dead() {
		x.exit("unwind", "solver exceeded the hard per-query limit and was killed at "+x.site())
	}
}

func (x *Exec) checkPathBudget() {
	if x.Cfg.PathBudgetS > 0 && time.Since(x.started).Seconds() > float64(x.Cfg.PathBudgetS) {
		x.exit("unwind", fmt.Sprintf("path time budget of %ds exhausted at %s (steps=%d terms=%d merged-paths=%d)", x.Cfg.PathBudgetS, x.site(), x.Steps, x.B.NumTerms(), x.Summ["merged-paths"]))
	}
}

// site names the innermost regen/harness source position being executed.
func (x *Exec) site() string {
	for i := len(x.frames) - 1; i >= 0; i-- {
		fr := x.frames[i]
		if fr.Cur != nil && fr.Cur.Pos().IsValid() {
			p := x.P.Prog.Fset.Position(fr.Cur.Pos())
			return fmt.Sprintf("%s:%d", p.Filename, p.Line)
		}
	}
	return "?"
}

// Choose is an n-ary nondeterministic choice of the engine or a model (all alternatives explored).
func (x *Exec) Choose(n int, label string) int {
	if n <= 1 {
		return 0
	}
	if x.merge != nil {
		x.Unsupported("nondeterministic choice (%s) inside a merged pure callee", label)
	}
	if x.pos < len(x.prefix) {
		d := x.prefix[x.pos]
		x.pos++
		x.Trace = append(x.Trace, d)
		if x.Cfg.Debug {
			fmt.Printf("DECISION %d = %d choose %s\n", x.pos-1, d.Val, label)
		}
		return d.Val
	}
	x.pos++
	x.Trace = append(x.Trace, Decision{Val: 0, N: n, Fixed: false})
	x.ForkSites["choose: "+label]++
	return 0
}

// BranchBool decides a BoolV.
func (x *Exec) BranchBool(v Value) bool {
	return x.Branch(v.(BoolV).T)
}

// Concretize forces an Int term to a constant: if the path condition does not already
// determine it, the path forks over the values in [lo,hi].
func (x *Exec) ConcretizeInt(t *smt.Term, lo, hi int, what string) int {
	if v, ok := t.ConstInt64(); ok {
		return int(v)
	}
	for k := lo; k < hi; k++ {
		if x.Branch(x.B.Eq(t, x.B.Int(int64(k)))) {
			return k
		}
	}
	if x.Branch(x.B.Eq(t, x.B.Int(int64(hi)))) {
		return hi
	}
	x.exit("unwind", "concretize "+what+": value outside the stated bound")
	return 0
}

// ---- obligations

// Assert emits the proof obligation pc => c.
func (x *Exec) Assert(c *smt.Term, name string) {
	x.syncConstAxioms()
	if c.IsTrue() {
		x.Obs = append(x.Obs, ObResult{Name: name, Verdict: "unsat", Solver: "simplifier"})
		return
	}
	neg := x.B.Not(c)
	t0 := time.Now()
	defer func() {
		if d := time.Since(t0).Seconds(); d > 1.0 {
			x.SlowSites["assert: "+name] += d
		}
	}()
	res, vals := x.S.CheckModel([]*smt.Term{neg}, x.modelTerms())
	solver := x.S.P.Kind
	if res == smt.Unknown {
		res, vals, solver = x.portfolio(neg)
	}
	ob := ObResult{Name: name, Verdict: res.String(), Solver: solver, Path: x.tracePath()}
	if res == smt.Sat {
		ob.Model = x.namedModel(vals)
		if solver == x.S.P.Kind && x.Cfg.FullModels && x.P.firstFull(name) {
			ob.Full = x.fullModel(neg)
		}
		ob.Detail = c.String()
		if len(ob.Detail) > 2000 {
			ob.Detail = ob.Detail[:2000] + "..."
		}
	}
	x.Obs = append(x.Obs, ob)
}

// Reach records a vacuity witness: the path condition is satisfiable here (and the model is kept).
func (x *Exec) Reach(name string) {
	res, vals := x.S.CheckModel(nil, x.modelTerms())
	solver := x.S.P.Kind
	if res == smt.Unknown {
		res, vals, solver = x.portfolio(x.B.True)
	}
	ob := ObResult{Name: "reach:" + name, Verdict: res.String(), Solver: solver, Path: x.tracePath()}
	if res == smt.Sat {
		ob.Model = x.namedModel(vals)
	}
	x.Obs = append(x.Obs, ob)
}

func (x *Exec) tracePath() []int {
	out := make([]int, len(x.Trace))
	for i, d := range x.Trace {
		out[i] = d.Val
	}
	return out
}

func (x *Exec) modelTerms() []*smt.Term {
	var ts []*smt.Term
	for _, n := range x.Nondets {
		ts = append(ts, n.Terms...)
	}
	ts = append(ts, x.evalExtra...)
	return ts
}

// fullModel evaluates every UF application and free constant (only used once a query is sat).
func (x *Exec) fullModel(extra *smt.Term) map[string]string {
	apps := x.B.Apps()
	if len(apps) > 1500 {
		apps = apps[:1500]
	}
	_, vals := x.S.CheckModel([]*smt.Term{extra}, apps)
	out := map[string]string{}
	for _, t := range apps {
		if v, ok := vals[t.ID]; ok {
			k := t.String()
			if len(k) > 300 {
				continue
			}
			out[k] = v
		}
	}
	for i, s := range x.B.ConstL {
		out[fmt.Sprintf("str%d", i)] = fmt.Sprintf("%q", s)
	}
	return out
}

func (x *Exec) namedModel(vals map[int]string) map[string]string {
	m := map[string]string{}
	if vals == nil {
		return m
	}
	for _, n := range x.Nondets {
		for i, t := range n.Terms {
			k := n.Label
			if len(n.Terms) > 1 {
				k = fmt.Sprintf("%s[%d]", n.Label, i)
			}
			if v, ok := vals[t.ID]; ok {
				m[k] = x.prettyVal(t, v)
			}
		}
	}
	for i, t := range x.evalExtra {
		if v, ok := vals[t.ID]; ok {
			m[x.evalNames[i]] = x.prettyVal(t, v)
		}
	}
	return m
}

func (x *Exec) prettyVal(t *smt.Term, v string) string {
	if t.Op == "cs" {
		s, _ := x.B.StrConstValue(t)
		return fmt.Sprintf("%q", s)
	}
	return v
}

// WantModel registers a term whose value should be reported in counterexamples.
func (x *Exec) WantModel(name string, t *smt.Term) {
	x.evalExtra = append(x.evalExtra, t)
	x.evalNames = append(x.evalNames, name)
}

// portfolio retries an unknown query on the other solvers with the full path condition.
func (x *Exec) portfolio(extra *smt.Term) (smt.Result, map[int]string, string) {
	for _, kind := range x.Cfg.Solvers[1:] {
		p := x.P.procFor(x, kind)
		if p == nil {
			continue
		}
		s := smt.NewSession(p, x.B)
		for _, c := range x.PC {
			s.Assert(c)
		}
		res, vals := s.CheckModel([]*smt.Term{extra}, x.modelTerms())
		if len(s.Errors) > 0 {
			x.Notes = append(x.Notes, "solver "+kind+": "+strings.Join(s.Errors, "; "))
			continue
		}
		if res != smt.Unknown {
			return res, vals, kind
		}
	}
	return smt.Unknown, nil, "portfolio"
}

// ---- function calls

func (x *Exec) noteFunc(fn *ssa.Function, n int) {
	x.Funcs[fn.String()] += n
}

// CallFunction interprets fn(args...).
func (x *Exec) CallFunction(fn *ssa.Function, args []Value, bind []Value) Value {
	// always wait for the package build (sync.Once): another worker may be in the middle of
	// it, and a half-built function has non-nil Blocks with nil instructions (lifting)
	if fn.Pkg != nil {
		fn.Pkg.Build()
	}
	if fn.Blocks == nil {
		x.Unsupported("call of external function without body: %s", fn.String())
	}
	x.depth++
	if x.depth > x.Cfg.MaxDepth {
		x.Unsupported("call depth exceeded at %s", fn.String())
	}
	defer func() { x.depth-- }()
	fr := &Frame{Fn: fn, Regs: make(map[ssa.Value]Value, 32), Visits: map[int]int{}}
	x.frames = append(x.frames, fr)
	defer func() { x.frames = x.frames[:len(x.frames)-1] }()
	for i, p := range fn.Params {
		if i < len(args) {
			fr.Regs[p] = args[i]
		}
	}
	for i, fv := range fn.FreeVars {
		fr.Regs[fv] = bind[i]
	}
	return x.runFrame(fr)
}

func (x *Exec) runFrame(fr *Frame) (ret Value) {
	fn := fr.Fn
	// A Go panic raised below this frame unwinds to here so that defers run.
	defer func() {
		if r := recover(); r != nil {
			gp, ok := r.(goPanic)
			if !ok {
				panic(r)
			}
			fr.Panicking = &gp
			x.runDefers(fr)
			if fr.Panicking != nil {
				panic(*fr.Panicking)
			}
			// recovered: return the named results as they stand
			ret = x.recoveredResult(fr)
		}
	}()
	block := fn.Blocks[0]
	var prev *ssa.BasicBlock
	count := 0
	for {
		fr.Visits[block.Index]++
		if x.loopAssume > 0 && fr.Visits[block.Index] > x.loopAssume+1 && strings.Contains(fn.String(), x.loopAssumeFn) {
			// the harness stated this bound as an assumption on the pre-state
			x.Assumes["stated loop bound"]++
			x.exit("assume", fmt.Sprintf("stated loop bound %d in %s block %d (%s)", x.loopAssume, fn.String(), block.Index, block.Comment))
		}
		if fr.Visits[block.Index] > x.Cfg.LoopBound+1 {
			x.exit("unwind", fmt.Sprintf("loop bound %d exceeded in %s block %d", x.Cfg.LoopBound, fn.String(), block.Index))
		}
		// phis first (parallel assignment)
		var phiVals []Value
		nphi := 0
		for _, ins := range block.Instrs {
			phi, ok := ins.(*ssa.Phi)
			if !ok {
				break
			}
			nphi++
			idx := -1
			for i, p := range block.Preds {
				if p == prev {
					idx = i
					break
				}
			}
			phiVals = append(phiVals, x.get(fr, phi.Edges[idx]))
		}
		for i := 0; i < nphi; i++ {
			fr.Regs[block.Instrs[i].(*ssa.Phi)] = phiVals[i]
		}
		var next *ssa.BasicBlock
		for _, ins := range block.Instrs[nphi:] {
			count++
			x.Steps++
			fr.Cur = ins
			if x.Steps%20000 == 0 {
				x.checkPathBudget()
			}
			if x.Steps > x.Cfg.MaxSteps {
				x.exit("unwind", "step budget exceeded")
			}
			switch i := ins.(type) {
			case *ssa.If:
				if x.BranchBool(x.get(fr, i.Cond)) {
					next = block.Succs[0]
				} else {
					next = block.Succs[1]
				}
			case *ssa.Jump:
				next = block.Succs[0]
			case *ssa.Return:
				x.noteFunc(fn, count)
				var res Value
				switch len(i.Results) {
				case 0:
					res = nil
				case 1:
					res = x.get(fr, i.Results[0])
				default:
					tv := make(TupleV, len(i.Results))
					for k, r := range i.Results {
						tv[k] = x.get(fr, r)
					}
					res = tv
				}
				fr.Result = res
				return res
			case *ssa.Panic:
				x.noteFunc(fn, count)
				v := x.get(fr, i.X)
				panic(goPanic{Val: v, Msg: x.describe(v)})
			case *ssa.RunDefers:
				x.runDefers(fr)
			default:
				x.step(fr, ins)
			}
		}
		if next == nil {
			x.Unsupported("block without terminator in %s", fn.String())
		}
		prev = block
		block = next
	}
}

func (x *Exec) recoveredResult(fr *Frame) Value {
	// After recover(), the function returns its named results; go/ssa loads them in the
	// Recover block. Execute that block.
	if fr.Fn.Recover == nil {
		res := fr.Fn.Signature.Results()
		switch res.Len() {
		case 0:
			return nil
		case 1:
			return x.zero(res.At(0).Type())
		}
		return x.zero(res)
	}
	block := fr.Fn.Recover
	for {
		var next *ssa.BasicBlock
		for _, ins := range block.Instrs {
			switch i := ins.(type) {
			case *ssa.Return:
				switch len(i.Results) {
				case 0:
					return nil
				case 1:
					return x.get(fr, i.Results[0])
				}
				tv := make(TupleV, len(i.Results))
				for k, r := range i.Results {
					tv[k] = x.get(fr, r)
				}
				return tv
			case *ssa.Jump:
				next = block.Succs[0]
			case *ssa.If:
				if x.BranchBool(x.get(fr, i.Cond)) {
					next = block.Succs[0]
				} else {
					next = block.Succs[1]
				}
			default:
				x.step(fr, ins)
			}
		}
		block = next
	}
}

func (x *Exec) runDefers(fr *Frame) {
	for len(fr.Defers) > 0 {
		d := fr.Defers[len(fr.Defers)-1]
		fr.Defers = fr.Defers[:len(fr.Defers)-1]
		x.curPanicFrame = append(x.curPanicFrame, fr)
		x.invokeValue(d.Fn, d.Args, &d.Call)
		x.curPanicFrame = x.curPanicFrame[:len(x.curPanicFrame)-1]
	}
}

func (x *Exec) describe(v Value) string {
	switch u := v.(type) {
	case IfaceV:
		return x.describe(u.V)
	case StrV:
		if u.IsConst {
			return u.S
		}
		return "<symbolic string>"
	case ErrV:
		return "error:" + u.Root + ":" + u.Msg
	}
	return fmt.Sprintf("%T", v)
}

// get resolves an SSA operand.
func (x *Exec) get(fr *Frame, v ssa.Value) Value {
	switch u := v.(type) {
	case *ssa.Const:
		return x.constValue(u)
	case *ssa.Global:
		return PtrV{Obj: x.globalObj(u)}
	case *ssa.Function:
		return FuncV{Fn: u}
	case *ssa.Builtin:
		return FuncV{Name: "builtin:" + u.Name()}
	}
	if r, ok := fr.Regs[v]; ok {
		return r
	}
	if fr.Fn != nil && fr.Fn.Synthetic == "" {
		x.Unsupported("use of undefined SSA value %s in %s", v.Name(), fr.Fn.String())
	}
	x.Unsupported("use of undefined SSA value %s", v.Name())
	return nil
}

func (x *Exec) constValue(c *ssa.Const) Value {
	t := c.Type()
	if c.Value == nil {
		return x.zero(t)
	}
	switch u := t.Underlying().(type) {
	case *types.Basic:
		switch {
		case u.Info()&types.IsBoolean != 0:
			return BoolV{x.B.Bool(constantBool(c))}
		case u.Info()&types.IsInteger != 0:
			return IntV{x.B.BigInt(constantBig(c))}
		case u.Info()&types.IsString != 0:
			return StrV{IsConst: true, S: constantString(c)}
		case u.Info()&types.IsFloat != 0:
			return FloatV{c.Float64()}
		}
	case *types.Interface, *types.TypeParam:
		// constant converted to interface happens via MakeInterface; not here
	}
	x.Unsupported("constant of type %v", t)
	return nil
}

// ---- globals and package initialisers

func (x *Exec) globalObj(g *ssa.Global) *Object {
	if o, ok := x.gl[g]; ok {
		return o
	}
	elem := g.Type().(*types.Pointer).Elem()
	o := x.newObj(nil, "global:"+g.String())
	o.Proc = true
	x.gl[g] = o
	x.inInit++
	defer func() { x.inInit-- }()
	name := g.String()
	tn := typeName(elem)
	if p, ok := elem.(*types.Pointer); ok {
		tn = "*" + typeName(p.Elem())
	}
	switch {
	case tn == "*cosmossdk.io/errors.Error" || tn == "error" || tn == "*github.com/cosmos/cosmos-sdk/types/errors.Error":
		o.Val = ErrV{Root: name, ID: x.errID(name)}
		return o
	}
	if v, ok := x.P.globalOverride(x, g); ok {
		o.Val = v
		return o
	}
	o.Val = x.zero(elem)
	x.initGlobal(g, o)
	return o
}

func (x *Exec) errID(name string) int {
	if id, ok := x.errIDs[name]; ok {
		return id
	}
	x.objN++
	x.errIDs[name] = x.objN
	return x.objN
}

// initGlobal evaluates, on demand, the parts of the package initialiser that define g.
func (x *Exec) initGlobal(g *ssa.Global, o *Object) {
	pkg := g.Pkg
	if pkg == nil {
		return
	}
	pkg.Build()
	init := pkg.Func("init")
	if init == nil || init.Blocks == nil {
		return
	}
	fr := x.initFr[pkg]
	if fr == nil {
		fr = &Frame{Fn: init, Regs: map[ssa.Value]Value{}, Visits: map[int]int{}}
		x.initFr[pkg] = fr
	}
	x.sweepWrites(fr, init, g, nil)
}

// rootOf follows address derivations back to their base value.
func rootOf(v ssa.Value) ssa.Value {
	for {
		switch u := v.(type) {
		case *ssa.FieldAddr:
			v = u.X
		case *ssa.IndexAddr:
			v = u.X
		case *ssa.Slice:
			v = u.X
		case *ssa.ChangeType:
			v = u.X
		default:
			return v
		}
	}
}

// sweepWrites executes every store/map update in the initialiser whose target derives from root.
func (x *Exec) sweepWrites(fr *Frame, init *ssa.Function, root ssa.Value, after ssa.Instruction) {
	for _, b := range init.Blocks {
		for _, ins := range b.Instrs {
			switch i := ins.(type) {
			case *ssa.Store:
				if rootOf(i.Addr) == root {
					addr := x.evalInit(fr, init, i.Addr)
					val := x.evalInit(fr, init, i.Val)
					x.store(addr, val)
				}
			case *ssa.MapUpdate:
				if rootOf(i.Map) == root {
					m := x.evalInit(fr, init, i.Map)
					k := x.evalInit(fr, init, i.Key)
					v := x.evalInit(fr, init, i.Value)
					x.mapUpdate(m, k, v)
				}
			}
		}
	}
}

func (x *Exec) evalInit(fr *Frame, init *ssa.Function, v ssa.Value) Value {
	switch v.(type) {
	case *ssa.Const, *ssa.Global, *ssa.Function, *ssa.Builtin:
		return x.get(fr, v)
	}
	if r, ok := fr.Regs[v]; ok {
		return r
	}
	ins, ok := v.(ssa.Instruction)
	if !ok {
		x.Unsupported("package initialiser: cannot evaluate %s", v.Name())
	}
	var ops []*ssa.Value
	ops = ins.Operands(ops)
	for _, op := range ops {
		if *op != nil {
			x.evalInit(fr, init, *op)
		}
	}
	x.step(fr, ins)
	switch ins.(type) {
	case *ssa.Alloc, *ssa.MakeMap, *ssa.MakeSlice:
		x.sweepWrites(fr, init, v, ins)
	}
	return fr.Regs[v]
}

// ---- helpers used by models and intrinsics

func (x *Exec) MkStr(s string) StrV { return StrV{IsConst: true, S: s} }

func (x *Exec) sortedKeys(m map[string]int) []string {
	var ks []string
	for k := range m {
		ks = append(ks, k)
	}
	sort.Strings(ks)
	return ks
}
