package sym

import (
	"fmt"
	"go/constant"
	"go/token"
	"go/types"
	"math/big"

	"golang.org/x/tools/go/ssa"

	"verif/engine/smt"
)

func constantBool(c *ssa.Const) bool     { return constant.BoolVal(c.Value) }
func constantString(c *ssa.Const) string { return constant.StringVal(c.Value) }
func constantBig(c *ssa.Const) *big.Int {
	v := constant.ToInt(c.Value)
	if v.Kind() != constant.Int {
		return big.NewInt(0)
	}
	if i, ok := constant.Int64Val(v); ok {
		return big.NewInt(i)
	}
	bi, _ := new(big.Int).SetString(v.ExactString(), 10)
	return bi
}

func intInfo(t types.Type) (bits int, signed bool, ok bool) {
	b, isB := t.Underlying().(*types.Basic)
	if !isB || b.Info()&types.IsInteger == 0 {
		return 0, false, false
	}
	switch b.Kind() {
	case types.Int8:
		return 8, true, true
	case types.Int16:
		return 16, true, true
	case types.Int32:
		return 32, true, true
	case types.Int64, types.Int, types.UntypedInt, types.UntypedRune:
		return 64, true, true
	case types.Uint8:
		return 8, false, true
	case types.Uint16:
		return 16, false, true
	case types.Uint32:
		return 32, false, true
	case types.Uint64, types.Uint, types.Uintptr:
		return 64, false, true
	}
	return 64, true, true
}

func isStringType(t types.Type) bool {
	b, ok := t.Underlying().(*types.Basic)
	return ok && b.Info()&types.IsString != 0
}

func (x *Exec) step(fr *Frame, ins ssa.Instruction) {
	switch i := ins.(type) {
	case *ssa.DebugRef:
	case *ssa.Alloc:
		elem := i.Type().(*types.Pointer).Elem()
		fr.Regs[i] = PtrV{Obj: x.newObj(x.zero(elem), i.Comment)}
	case *ssa.Store:
		x.store(x.get(fr, i.Addr), x.get(fr, i.Val))
	case *ssa.UnOp:
		fr.Regs[i] = x.unop(fr, i)
	case *ssa.BinOp:
		fr.Regs[i] = x.binop(i.Op, x.get(fr, i.X), x.get(fr, i.Y), i.X.Type(), i.Type())
	case *ssa.FieldAddr:
		p := x.get(fr, i.X).(PtrV)
		if p.Obj == nil {
			panic(goPanic{Msg: "nil pointer dereference (field address)"})
		}
		x.ensureNonNil(p)
		fr.Regs[i] = PtrV{Obj: p.Obj, Path: appendPath(p.Path, i.Field)}
	case *ssa.Field:
		fr.Regs[i] = x.fieldOf(x.get(fr, i.X), i.Field)
	case *ssa.IndexAddr:
		fr.Regs[i] = x.indexAddr(x.get(fr, i.X), x.get(fr, i.Index))
	case *ssa.Index:
		fr.Regs[i] = x.indexValue(x.get(fr, i.X), x.get(fr, i.Index))
	case *ssa.Extract:
		fr.Regs[i] = x.get(fr, i.Tuple).(TupleV)[i.Index]
	case *ssa.Call:
		fr.Regs[i] = x.doCall(fr, &i.Call, i)
	case *ssa.Defer:
		fn, args := x.prepareCall(fr, &i.Call)
		fr.Defers = append(fr.Defers, deferred{Call: i.Call, Fn: fn, Args: args})
	case *ssa.MakeInterface:
		fr.Regs[i] = x.makeInterface(x.get(fr, i.X), i.X.Type())
	case *ssa.ChangeInterface:
		fr.Regs[i] = x.get(fr, i.X)
	case *ssa.ChangeType:
		fr.Regs[i] = x.get(fr, i.X)
	case *ssa.Convert:
		fr.Regs[i] = x.convert(x.get(fr, i.X), i.X.Type(), i.Type())
	case *ssa.MultiConvert:
		fr.Regs[i] = x.convert(x.get(fr, i.X), i.X.Type(), i.Type())
	case *ssa.TypeAssert:
		fr.Regs[i] = x.typeAssert(x.get(fr, i.X), i)
	case *ssa.MakeClosure:
		b := make([]Value, len(i.Bindings))
		for k, bv := range i.Bindings {
			b[k] = x.get(fr, bv)
		}
		fr.Regs[i] = FuncV{Fn: i.Fn.(*ssa.Function), Bind: b}
	case *ssa.MakeSlice:
		n := x.concreteInt(x.get(fr, i.Len), "make slice length")
		c := x.concreteInt(x.get(fr, i.Cap), "make slice capacity")
		et := i.Type().Underlying().(*types.Slice).Elem()
		es := make([]Value, c)
		for k := range es {
			es[k] = x.zero(et)
		}
		fr.Regs[i] = SliceV{Arr: x.newObj(ArrayV{es}, "makeslice"), Off: 0, Len: n, Cap: c}
	case *ssa.Slice:
		fr.Regs[i] = x.sliceOp(fr, i)
	case *ssa.MakeMap:
		fr.Regs[i] = MapV{Obj: x.newObj(&MapData{}, "map")}
	case *ssa.MapUpdate:
		x.mapUpdate(x.get(fr, i.Map), x.get(fr, i.Key), x.get(fr, i.Value))
	case *ssa.Lookup:
		fr.Regs[i] = x.lookup(x.get(fr, i.X), x.get(fr, i.Index), i)
	case *ssa.Range:
		fr.Regs[i] = x.rangeStart(x.get(fr, i.X))
	case *ssa.Next:
		fr.Regs[i] = x.rangeNext(x.get(fr, i.Iter), i)
	case *ssa.MakeChan:
		fr.Regs[i] = OpaqueV{Kind: "chan"}
	case *ssa.Go:
		x.Effects = append(x.Effects, Effect{Kind: "nondeterminism", Name: "go statement in " + fr.Fn.String()})
		x.Unsupported("go statement in %s", fr.Fn.String())
	case *ssa.Select:
		x.Effects = append(x.Effects, Effect{Kind: "nondeterminism", Name: "select in " + fr.Fn.String()})
		x.Unsupported("select in %s", fr.Fn.String())
	case *ssa.Send:
		x.Unsupported("channel send in %s", fr.Fn.String())
	case *ssa.SliceToArrayPointer:
		x.Unsupported("slice to array pointer in %s", fr.Fn.String())
	default:
		x.Unsupported("instruction %T in %s", ins, fr.Fn.String())
	}
}

func appendPath(p []int, i int) []int {
	q := make([]int, len(p)+1)
	copy(q, p)
	q[len(p)] = i
	return q
}

// ---- memory

func (x *Exec) load(pv Value) Value {
	p, ok := pv.(PtrV)
	if !ok {
		x.Unsupported("load through %T", pv)
	}
	if p.Obj == nil {
		panic(goPanic{Msg: "nil pointer dereference"})
	}
	x.ensureNonNil(p)
	return x.loadRaw(p)
}

func (x *Exec) loadRaw(p PtrV) Value {
	v := p.Obj.Val
	for _, k := range p.Path {
		v = x.child(v, k)
	}
	return v
}

// ensureNonNil decides a symbolic presence condition when the pointer is dereferenced.
func (x *Exec) ensureNonNil(p PtrV) {
	if p.Cond == nil {
		return
	}
	if !x.Branch(p.Cond) {
		panic(goPanic{Msg: "nil pointer dereference (absent optional field)"})
	}
}

func (x *Exec) child(v Value, k int) Value {
	switch u := v.(type) {
	case StructV:
		return u.F[k]
	case ArrayV:
		if k < 0 || k >= len(u.E) {
			panic(goPanic{Msg: "index out of range"})
		}
		return u.E[k]
	}
	x.Unsupported("child %d of %T", k, v)
	return nil
}

func (x *Exec) store(pv Value, val Value) {
	p, ok := pv.(PtrV)
	if !ok {
		x.Unsupported("store through %T", pv)
	}
	if p.Obj == nil {
		panic(goPanic{Msg: "nil pointer dereference (store)"})
	}
	x.ensureNonNil(p)
	if x.merge != nil && p.Obj.ID <= x.merge.objLim {
		x.Unsupported("side effect inside a merged pure callee")
	}
	x.procWrite(p.Obj)
	p.Obj.Val = x.update(p.Obj.Val, p.Path, val)
}

func (x *Exec) update(v Value, path []int, val Value) Value {
	if len(path) == 0 {
		return val
	}
	k := path[0]
	switch u := v.(type) {
	case StructV:
		f := make([]Value, len(u.F))
		copy(f, u.F)
		f[k] = x.update(u.F[k], path[1:], val)
		return StructV{f}
	case ArrayV:
		if k < 0 || k >= len(u.E) {
			panic(goPanic{Msg: "index out of range"})
		}
		e := make([]Value, len(u.E))
		copy(e, u.E)
		e[k] = x.update(u.E[k], path[1:], val)
		return ArrayV{e}
	}
	x.Unsupported("update child %d of %T", k, v)
	return nil
}

func (x *Exec) fieldOf(v Value, k int) Value {
	switch u := v.(type) {
	case StructV:
		return u.F[k]
	}
	x.Unsupported("field %d of %T", k, v)
	return nil
}

func (x *Exec) concreteInt(v Value, what string) int {
	iv, ok := v.(IntV)
	if !ok {
		x.Unsupported("%s: not an integer (%T)", what, v)
	}
	if c, ok := iv.T.ConstInt64(); ok {
		return int(c)
	}
	return x.ConcretizeInt(iv.T, 0, x.Cfg.Bound("concretize", 8), what)
}

// concreteIndex case-splits a symbolic index over the whole range of a container of known
// length (up to 64 elements; beyond that the stated concretize bound applies) and raises the
// Go run-time panic when the index can lie outside it.
func (x *Exec) concreteIndex(idx Value, n int, what string) int {
	iv, ok := idx.(IntV)
	if !ok {
		x.Unsupported("%s: not an integer (%T)", what, idx)
	}
	if c, ok := iv.T.ConstInt64(); ok {
		return int(c)
	}
	if n <= 0 || n > 64 {
		return x.ConcretizeInt(iv.T, 0, x.Cfg.Bound("concretize", 8), what)
	}
	B := x.B
	if !x.Branch(B.And(B.Le(B.Int(0), iv.T), B.Lt(iv.T, B.Int(int64(n))))) {
		panic(goPanic{Msg: fmt.Sprintf("index out of range with length %d", n)})
	}
	return x.ConcretizeInt(iv.T, 0, n-1, what)
}

func (x *Exec) indexAddr(base Value, idx Value) Value {
	switch b := base.(type) {
	case SliceV:
		if b.Atom != nil {
			x.Unsupported("index into opaque byte string")
		}
		k := x.concreteIndex(idx, b.Len, "slice index")
		if k < 0 || k >= b.Len {
			panic(goPanic{Msg: fmt.Sprintf("index out of range [%d] with length %d", k, b.Len)})
		}
		return PtrV{Obj: b.Arr, Path: []int{b.Off + k}}
	case PtrV: // pointer to array
		arr, ok := x.load(b).(ArrayV)
		if !ok {
			x.Unsupported("index address through pointer to %T", x.load(b))
		}
		k := x.concreteIndex(idx, len(arr.E), "array index")
		if k < 0 || k >= len(arr.E) {
			panic(goPanic{Msg: "index out of range"})
		}
		return PtrV{Obj: b.Obj, Path: appendPath(b.Path, k)}
	}
	x.Unsupported("index address of %T", base)
	return nil
}

func (x *Exec) indexValue(base Value, idx Value) Value {
	switch b := base.(type) {
	case ArrayV:
		k := x.concreteIndex(idx, len(b.E), "array index")
		if k < 0 || k >= len(b.E) {
			panic(goPanic{Msg: "index out of range"})
		}
		return b.E[k]
	case StrV:
		return x.stringIndex(b, idx)
	}
	x.Unsupported("index of %T", base)
	return nil
}

func (x *Exec) sliceElems(s SliceV) []Value {
	if s.Nil || s.Arr == nil {
		return nil
	}
	arr := s.Arr.Val.(ArrayV)
	return arr.E[s.Off : s.Off+s.Len]
}

func (x *Exec) mkSlice(elems []Value) SliceV {
	e := make([]Value, len(elems))
	copy(e, elems)
	return SliceV{Arr: x.newObj(ArrayV{e}, "slice"), Len: len(e), Cap: len(e)}
}

func (x *Exec) sliceOp(fr *Frame, i *ssa.Slice) Value {
	base := x.get(fr, i.X)
	lo, hi, max := -1, -1, -1
	if i.Low != nil {
		lo = x.concreteInt(x.get(fr, i.Low), "slice low")
	}
	if i.High != nil {
		hi = x.concreteInt(x.get(fr, i.High), "slice high")
	}
	if i.Max != nil {
		max = x.concreteInt(x.get(fr, i.Max), "slice max")
	}
	switch b := base.(type) {
	case StrV:
		return x.stringSlice(b, lo, hi)
	case SliceV:
		if b.Atom != nil {
			if lo <= 0 && hi < 0 {
				return b
			}
			x.Unsupported("slicing an opaque byte string")
		}
		if lo < 0 {
			lo = 0
		}
		if hi < 0 {
			hi = b.Len
		}
		if max < 0 {
			max = b.Cap
		}
		if lo > hi || hi > max || max > b.Cap {
			panic(goPanic{Msg: "slice bounds out of range"})
		}
		if b.Nil && hi == 0 {
			return b
		}
		return SliceV{Arr: b.Arr, Off: b.Off + lo, Len: hi - lo, Cap: max - lo}
	case PtrV: // *array
		arr, ok := x.load(b).(ArrayV)
		if !ok {
			x.Unsupported("slice of pointer to %T", x.load(b))
		}
		if len(b.Path) != 0 {
			x.Unsupported("slice of nested array")
		}
		if lo < 0 {
			lo = 0
		}
		if hi < 0 {
			hi = len(arr.E)
		}
		if max < 0 {
			max = len(arr.E)
		}
		if lo > hi || hi > max || max > len(arr.E) {
			panic(goPanic{Msg: "slice bounds out of range"})
		}
		return SliceV{Arr: b.Obj, Off: lo, Len: hi - lo, Cap: max - lo}
	}
	x.Unsupported("slice of %T", base)
	return nil
}

// ---- operators

func (x *Exec) unop(fr *Frame, i *ssa.UnOp) Value {
	v := x.get(fr, i.X)
	switch i.Op {
	case token.MUL:
		return x.load(v)
	case token.NOT:
		return BoolV{x.B.Not(v.(BoolV).T)}
	case token.SUB:
		switch u := v.(type) {
		case IntV:
			bits, signed, _ := intInfo(i.Type())
			return IntV{x.B.Wrap(x.B.Neg(u.T), bits, signed)}
		case FloatV:
			return FloatV{-u.F}
		}
	case token.XOR:
		if u, ok := v.(IntV); ok {
			bits, signed, _ := intInfo(i.Type())
			// ^x = -x-1 (two's complement)
			return IntV{x.B.Wrap(x.B.Sub(x.B.Neg(u.T), x.B.Int(1)), bits, signed)}
		}
	case token.ARROW:
		x.Unsupported("channel receive in %s", fr.Fn.String())
	}
	x.Unsupported("unary %v on %T", i.Op, v)
	return nil
}

func (x *Exec) binop(op token.Token, a, b Value, opType types.Type, resType types.Type) Value {
	B := x.B
	switch av := a.(type) {
	case IntV:
		bv, ok := b.(IntV)
		if !ok {
			x.Unsupported("binop %v on IntV and %T", op, b)
		}
		bits, signed, _ := intInfo(opType)
		switch op {
		case token.ADD:
			return IntV{B.Wrap(B.Add(av.T, bv.T), bits, signed)}
		case token.SUB:
			return IntV{B.Wrap(B.Sub(av.T, bv.T), bits, signed)}
		case token.MUL:
			return IntV{B.Wrap(B.Mul(av.T, bv.T), bits, signed)}
		case token.QUO, token.REM:
			if x.Branch(B.Eq(bv.T, B.Int(0))) {
				panic(goPanic{Msg: "integer divide by zero"})
			}
			q, r := x.truncDivMod(av.T, bv.T, signed)
			if op == token.QUO {
				return IntV{B.Wrap(q, bits, signed)}
			}
			return IntV{r}
		case token.EQL:
			return BoolV{B.Eq(av.T, bv.T)}
		case token.NEQ:
			return BoolV{B.Neq(av.T, bv.T)}
		case token.LSS:
			return BoolV{B.Lt(av.T, bv.T)}
		case token.LEQ:
			return BoolV{B.Le(av.T, bv.T)}
		case token.GTR:
			return BoolV{B.Gt(av.T, bv.T)}
		case token.GEQ:
			return BoolV{B.Ge(av.T, bv.T)}
		case token.SHL:
			k, ok := bv.T.ConstInt64()
			if !ok {
				x.Unsupported("shift by a symbolic amount")
			}
			if k >= int64(bits) {
				return IntV{B.Int(0)}
			}
			return IntV{B.Wrap(B.Mul(av.T, B.BigInt(new(big.Int).Lsh(big.NewInt(1), uint(k)))), bits, signed)}
		case token.SHR:
			k, ok := bv.T.ConstInt64()
			if !ok {
				x.Unsupported("shift by a symbolic amount")
			}
			if k >= int64(bits) && !signed {
				return IntV{B.Int(0)}
			}
			// floor division is arithmetic shift for signed, logical for unsigned (value >= 0)
			return IntV{B.Div(av.T, B.BigInt(new(big.Int).Lsh(big.NewInt(1), uint(k))))}
		case token.AND, token.OR, token.XOR, token.AND_NOT:
			return IntV{x.bitop(op, av.T, bv.T, bits, signed)}
		}
	case BoolV:
		bv := b.(BoolV)
		switch op {
		case token.EQL:
			return BoolV{B.Eq(av.T, bv.T)}
		case token.NEQ:
			return BoolV{B.Neq(av.T, bv.T)}
		case token.AND, token.LAND:
			return BoolV{B.And(av.T, bv.T)}
		case token.OR, token.LOR:
			return BoolV{B.Or(av.T, bv.T)}
		}
	case StrV:
		bv, ok := b.(StrV)
		if !ok {
			x.Unsupported("binop %v on string and %T", op, b)
		}
		return x.stringBinop(op, av, bv)
	case FloatV:
		bv := b.(FloatV)
		switch op {
		case token.ADD:
			return FloatV{av.F + bv.F}
		case token.SUB:
			return FloatV{av.F - bv.F}
		case token.MUL:
			return FloatV{av.F * bv.F}
		case token.QUO:
			return FloatV{av.F / bv.F}
		case token.EQL:
			return BoolV{B.Bool(av.F == bv.F)}
		case token.NEQ:
			return BoolV{B.Bool(av.F != bv.F)}
		case token.LSS:
			return BoolV{B.Bool(av.F < bv.F)}
		case token.LEQ:
			return BoolV{B.Bool(av.F <= bv.F)}
		case token.GTR:
			return BoolV{B.Bool(av.F > bv.F)}
		case token.GEQ:
			return BoolV{B.Bool(av.F >= bv.F)}
		}
	}
	if op == token.EQL || op == token.NEQ {
		eq := x.valuesEqual(a, b)
		if op == token.NEQ {
			eq = B.Not(eq)
		}
		return BoolV{eq}
	}
	x.Unsupported("binop %v on %T and %T", op, a, b)
	return nil
}

// truncDivMod builds Go's truncated division from SMT-LIB's floor/Euclidean div.
func (x *Exec) truncDivMod(a, d *smt.Term, signed bool) (*smt.Term, *smt.Term) {
	B := x.B
	if !signed || (a.Lo != nil && a.Lo.Sign() >= 0 && d.Lo != nil && d.Lo.Sign() > 0) {
		return B.Div(a, d), B.Mod(a, d)
	}
	zero := B.Int(0)
	absA := B.Ite(B.Lt(a, zero), B.Neg(a), a)
	absD := B.Ite(B.Lt(d, zero), B.Neg(d), d)
	q := B.Div(absA, absD)
	r := B.Mod(absA, absD)
	neg := B.Neq(B.Lt(a, zero), B.Lt(d, zero))
	return B.Ite(neg, B.Neg(q), q), B.Ite(B.Lt(a, zero), B.Neg(r), r)
}

// bitop supports the bit patterns that occur in the code under test: masks and ors with
// constants of the form 2^k-1 / 2^k, on non-negative values.
func (x *Exec) bitop(op token.Token, a, b *smt.Term, bits int, signed bool) *smt.Term {
	B := x.B
	ca, oka := a.ConstInt64()
	cb, okb := b.ConstInt64()
	if oka && okb {
		switch op {
		case token.AND:
			return B.Int(ca & cb)
		case token.OR:
			return B.Int(ca | cb)
		case token.XOR:
			return B.Int(ca ^ cb)
		case token.AND_NOT:
			return B.Int(ca &^ cb)
		}
	}
	if oka && !okb {
		if op == token.AND_NOT {
			x.Unsupported("bit operation const &^ symbolic")
		}
		a, b = b, a
		cb, okb = ca, true
	}
	if !okb {
		x.Unsupported("bit operation on two symbolic operands")
	}
	nonneg := a.Lo != nil && a.Lo.Sign() >= 0
	switch op {
	case token.AND:
		// x & (2^k-1) = x mod 2^k (for non-negative x or two's complement: mod is right for both)
		if cb >= 0 && (cb+1)&cb == 0 {
			return B.Mod(a, B.Int(cb+1))
		}
		// x & 2^k (single bit)
		if cb > 0 && cb&(cb-1) == 0 && nonneg {
			return B.Mul(B.Mod(B.Div(a, B.Int(cb)), B.Int(2)), B.Int(cb))
		}
	case token.OR:
		// x | 2^k where x < 2^k, or general single bit
		if cb > 0 && cb&(cb-1) == 0 && nonneg {
			bit := B.Mod(B.Div(a, B.Int(cb)), B.Int(2))
			return B.Add(a, B.Mul(B.Sub(B.Int(1), bit), B.Int(cb)))
		}
		if cb == 0 {
			return a
		}
	case token.AND_NOT:
		if cb >= 0 && (cb+1)&cb == 0 && nonneg {
			return B.Sub(a, B.Mod(a, B.Int(cb+1)))
		}
	}
	x.Unsupported("bit operation %v with constant %d", op, cb)
	return nil
}

// valuesEqual is Go's == on non-scalar comparable values.
func (x *Exec) valuesEqual(a, b Value) *smt.Term {
	B := x.B
	if ce, ok := a.(CondErrV); ok {
		if n, isn := isNilValue(b); isn && n {
			return B.Not(ce.Cond)
		}
		return x.valuesEqual(x.concErr(a), b)
	}
	if ce, ok := b.(CondErrV); ok {
		if n, isn := isNilValue(a); isn && n {
			return B.Not(ce.Cond)
		}
		return x.valuesEqual(a, x.concErr(b))
	}
	an, aok := isNilValue(a)
	bn, bok := isNilValue(b)
	if aok && bok && (an || bn) {
		// symbolic nil-ness: optional pointers and opaque byte strings
		other := a
		if an {
			other = b
		}
		if an && bn {
			return B.True
		}
		switch o := other.(type) {
		case PtrV:
			if o.Cond != nil {
				return B.Not(o.Cond)
			}
		case SliceV:
			if o.Atom != nil {
				return B.Eq(o.Atom, B.StrConst(""))
			}
		}
		return B.Bool(an && bn)
	}
	switch av := a.(type) {
	case PtrV:
		if bv, ok := b.(PtrV); ok {
			if av.Obj != bv.Obj || len(av.Path) != len(bv.Path) {
				return B.False
			}
			for i := range av.Path {
				if av.Path[i] != bv.Path[i] {
					return B.False
				}
			}
			return B.True
		}
	case ErrV:
		switch bv := b.(type) {
		case ErrV:
			return B.Bool(av.ID == bv.ID)
		case IfaceV:
			return x.valuesEqual(a, bv.V)
		}
		return B.False
	case IfaceV:
		if bv, ok := b.(IfaceV); ok {
			if av.T == nil || bv.T == nil {
				return B.Bool(av.T == nil && bv.T == nil && av.V == nil && bv.V == nil)
			}
			if !types.Identical(av.T, bv.T) {
				return B.False
			}
			return x.valuesEqual(av.V, bv.V)
		}
		return x.valuesEqual(av.V, b)
	case ModelV:
		if bv, ok := b.(ModelV); ok {
			return B.Bool(av.M == bv.M)
		}
		return B.False
	case IntV:
		if bv, ok := b.(IntV); ok {
			return B.Eq(av.T, bv.T)
		}
	case BoolV:
		if bv, ok := b.(BoolV); ok {
			return B.Eq(av.T, bv.T)
		}
	case StrV:
		if bv, ok := b.(StrV); ok {
			return x.stringEq(av, bv)
		}
	case StructV:
		if bv, ok := b.(StructV); ok && len(av.F) == len(bv.F) {
			r := B.True
			for i := range av.F {
				r = B.And(r, x.valuesEqual(av.F[i], bv.F[i]))
			}
			return r
		}
	case ArrayV:
		if bv, ok := b.(ArrayV); ok && len(av.E) == len(bv.E) {
			r := B.True
			for i := range av.E {
				r = B.And(r, x.valuesEqual(av.E[i], bv.E[i]))
			}
			return r
		}
	case TimeV:
		if bv, ok := b.(TimeV); ok {
			return B.And(B.Eq(av.Sec, bv.Sec), B.Eq(av.Nsec, bv.Nsec))
		}
	case OpaqueV:
		if bv, ok := b.(OpaqueV); ok {
			return B.Bool(av.ID == bv.ID && av.Kind == bv.Kind)
		}
	case FuncV:
		return B.False
	}
	if _, ok := b.(IfaceV); ok {
		return x.valuesEqual(b, a)
	}
	if _, ok := b.(ErrV); ok {
		return x.valuesEqual(b, a)
	}
	x.Unsupported("comparison of %T and %T", a, b)
	return nil
}

// ---- conversions, interfaces

func (x *Exec) convert(v Value, from, to types.Type) Value {
	B := x.B
	if tb, ts, ok := intInfo(to); ok {
		switch u := v.(type) {
		case IntV:
			return IntV{B.Wrap(u.T, tb, ts)}
		case FloatV:
			return IntV{B.Int(int64(u.F))}
		}
	}
	if tbas, ok := to.Underlying().(*types.Basic); ok && tbas.Info()&types.IsFloat != 0 {
		switch u := v.(type) {
		case IntV:
			if c, ok := u.T.ConstInt64(); ok {
				return FloatV{float64(c)}
			}
			x.Unsupported("conversion of a symbolic integer to float")
		case FloatV:
			return u
		}
	}
	if isStringType(to) {
		switch u := v.(type) {
		case StrV:
			return u
		case SliceV: // []byte or []rune -> string
			return x.bytesToString(u)
		case IntV: // string(rune)
			if c, ok := u.T.ConstInt64(); ok {
				return StrV{IsConst: true, S: string(rune(c))}
			}
			// a symbolic ASCII byte
			return StrV{Bytes: []*smt.Term{u.T}}
		}
	}
	if sl, ok := to.Underlying().(*types.Slice); ok {
		if s, ok := v.(StrV); ok {
			if b, ok := sl.Elem().Underlying().(*types.Basic); ok && b.Kind() == types.Int32 {
				return x.stringToRunes(s)
			}
			return x.stringToBytes(s)
		}
		if s, ok := v.(SliceV); ok {
			return s
		}
	}
	if _, ok := to.Underlying().(*types.Pointer); ok {
		return v
	}
	if b, ok := to.Underlying().(*types.Basic); ok && b.Kind() == types.UnsafePointer {
		return v
	}
	x.Unsupported("conversion %v -> %v (%T)", from, to, v)
	return nil
}

func (x *Exec) makeInterface(v Value, t types.Type) Value {
	switch v.(type) {
	case ErrV, ModelV, CondErrV:
		return v
	}
	return IfaceV{T: t, V: v}
}

// dynType returns the dynamic type of an interface-like value.
func (x *Exec) dynType(v Value) types.Type {
	switch u := v.(type) {
	case IfaceV:
		return u.T
	}
	return nil
}

func (x *Exec) typeAssert(v Value, i *ssa.TypeAssert) Value {
	v = x.concErr(v)
	ok := false
	var res Value
	switch u := v.(type) {
	case IfaceV:
		if u.T != nil {
			if types.IsInterface(i.AssertedType) {
				it := i.AssertedType.Underlying().(*types.Interface)
				ok = types.Implements(u.T, it)
				res = v
			} else {
				ok = types.Identical(u.T, i.AssertedType)
				res = u.V
			}
		}
	case ErrV:
		if types.IsInterface(i.AssertedType) {
			// error values satisfy `error`; other interfaces (e.g. interface{ Is(error) bool }) are not modelled
			it := i.AssertedType.Underlying().(*types.Interface)
			ok = it.NumMethods() == 0 || (it.NumMethods() == 1 && it.Method(0).Name() == "Error")
			res = v
		} else {
			ok = false
		}
	case ModelV:
		if types.IsInterface(i.AssertedType) {
			ok = true
			res = v
		} else if mt, okm := u.M.(interface{ ConcreteType() types.Type }); okm && mt.ConcreteType() != nil {
			ok = types.Identical(mt.ConcreteType(), i.AssertedType)
			res = v
		}
	case nil:
	default:
		x.Unsupported("type assertion on %T", v)
	}
	if i.CommaOk {
		if !ok {
			res = x.zero(i.AssertedType)
		}
		return TupleV{res, BoolV{x.B.Bool(ok)}}
	}
	if !ok {
		panic(goPanic{Msg: "interface conversion failed: " + i.AssertedType.String()})
	}
	return res
}

// ---- maps and ranges

func (x *Exec) keyEqual(a, b Value) bool {
	t := x.valuesEqual(a, b)
	return x.Branch(t)
}

func (x *Exec) mapUpdate(m Value, k, v Value) {
	mv, ok := m.(MapV)
	if !ok {
		x.Unsupported("map update on %T", m)
	}
	if mv.Obj == nil {
		panic(goPanic{Msg: "assignment to entry in nil map"})
	}
	md := mv.Obj.Val.(*MapData)
	x.procWrite(mv.Obj)
	for i := range md.Entries {
		if x.keyEqual(md.Entries[i].K, k) {
			md.Entries[i].V = v
			return
		}
	}
	md.Entries = append(md.Entries, MapEntry{k, v})
}

func (x *Exec) lookup(m Value, k Value, i *ssa.Lookup) Value {
	if s, ok := m.(StrV); ok {
		return x.stringIndex(s, k)
	}
	mv, ok := m.(MapV)
	if !ok {
		x.Unsupported("lookup in %T", m)
	}
	et := i.X.Type().Underlying().(*types.Map).Elem()
	var found Value
	hit := false
	if mv.Obj != nil {
		md := mv.Obj.Val.(*MapData)
		for _, e := range md.Entries {
			if x.keyEqual(e.K, k) {
				found = e.V
				hit = true
				break
			}
		}
	}
	if !hit {
		found = x.zero(et)
	}
	if i.CommaOk {
		return TupleV{found, BoolV{x.B.Bool(hit)}}
	}
	return found
}

type rangeIter struct {
	Kind  string // map | string
	Items []MapEntry
	Str   StrV
	Pos   int
}

func (x *Exec) rangeStart(v Value) Value {
	switch u := v.(type) {
	case MapV:
		it := &rangeIter{Kind: "map"}
		if u.Obj != nil {
			md := u.Obj.Val.(*MapData)
			it.Items = append(it.Items, md.Entries...)
			// Go randomises map iteration order: every permutation is a path.
			if n := len(it.Items); n > 1 {
				x.Effects = append(x.Effects, Effect{Kind: "map-range", Name: fmt.Sprintf("%d entries", n)})
				for i := 0; i < n-1; i++ {
					j := i + x.Choose(n-i, "map iteration order")
					it.Items[i], it.Items[j] = it.Items[j], it.Items[i]
				}
			}
		}
		return OpaqueV{Kind: "range", Data: it}
	case StrV:
		return OpaqueV{Kind: "range", Data: &rangeIter{Kind: "string", Str: u}}
	}
	x.Unsupported("range over %T", v)
	return nil
}

func (x *Exec) rangeNext(v Value, i *ssa.Next) Value {
	it := v.(OpaqueV).Data.(*rangeIter)
	B := x.B
	if it.Kind == "map" {
		if it.Pos >= len(it.Items) {
			tt := i.Type().(*types.Tuple)
			return TupleV{BoolV{B.False}, x.zeroOrNil(tt.At(1).Type()), x.zeroOrNil(tt.At(2).Type())}
		}
		e := it.Items[it.Pos]
		it.Pos++
		return TupleV{BoolV{B.True}, e.K, e.V}
	}
	return x.stringRangeNext(it)
}

func (x *Exec) zeroOrNil(t types.Type) Value {
	if b, ok := t.(*types.Basic); ok && b.Kind() == types.Invalid {
		return nil
	}
	return x.zero(t)
}
