package sym

import (
	"fmt"
	"go/types"
	"math/big"
	"runtime"
	"strings"

	"golang.org/x/tools/go/ssa"

	"verif/engine/smt"
)

func runtimeStack(buf []byte) int { return runtime.Stack(buf, false) }

type Effect struct {
	Kind string
	Name string
	Vals []Value
}

func registerIntrinsics(p *Program) {
	// zzverif primitives are matched by package suffix.
	for path, sp := range p.ByPath {
		if strings.HasSuffix(path, "/zzverif") {
			for name, m := range sp.Members {
				if f, ok := m.(*ssa.Function); ok {
					n := name
					p.Intr[f.String()] = func(x *Exec, c *CallCtx) Value { return x.zzverif(n, c) }
				}
			}
		}
	}
	registerErrors(p)
	registerFmt(p)
	registerDecimal(p)
	registerSDK(p)
	registerTime(p)
	registerStringsPkg(p)
	registerEnv(p)
	registerMisc(p)
	registerSort(p)
	registerRegen(p)
	registerData(p)
	registerIntertx(p)
}

func (x *Exec) constStr(v Value, what string) string {
	s, ok := v.(StrV)
	if !ok || !s.IsConst {
		x.Unsupported("%s must be a constant string", what)
	}
	return s.S
}

func (x *Exec) addNondet(label, kind string, ts ...*smt.Term) {
	x.Nondets = append(x.Nondets, NondetRec{Label: label, Kind: kind, Terms: ts})
}

func (x *Exec) nondetIntTyped(label string, bits int, signed bool) IntV {
	lo, hi := smt.TypeRange(bits, signed)
	t := x.boundedVar("nd_"+label, lo, hi, "range")
	x.addNondet(label, "int", t)
	return IntV{t}
}

func (x *Exec) nondetRange(label string, lo, hi int64) IntV {
	t := x.boundedVar("nd_"+label, big.NewInt(lo), big.NewInt(hi), "range")
	x.addNondet(label, "int", t)
	return IntV{t}
}

// boundedVar declares an Int variable, asserts lo <= v <= hi, and only then records the
// interval on the term (recording it first would let the simplifier erase the assertion).
func (x *Exec) boundedVar(name string, lo, hi *big.Int, label string) *smt.Term {
	t := x.B.Var(name, smt.SInt)
	if t.Lo == nil && t.Hi == nil {
		x.Assume(x.B.And(x.B.Le(x.B.BigInt(lo), t), x.B.Le(t, x.B.BigInt(hi))), label)
		t.Lo, t.Hi = lo, hi
	}
	return t
}

func (x *Exec) nondetAtom(label string) *smt.Term {
	t := x.B.Var("nd_"+label, smt.SStr)
	x.addNondet(label, "atom", t)
	return t
}

func (x *Exec) nondetContent(label string, n int) []*smt.Term {
	bs := make([]*smt.Term, n)
	for i := range bs {
		bs[i] = x.boundedVar(fmt.Sprintf("nd_%s_%d", label, i), big.NewInt(0), big.NewInt(255), "byte range")
	}
	x.addNondet(label, "bytes", bs...)
	return bs
}

func (x *Exec) zzverif(name string, c *CallCtx) Value {
	B := x.B
	a := c.Args
	switch name {
	case "NondetBool":
		t := B.Var("nd_"+x.constStr(a[0], "label"), smt.SBool)
		x.addNondet(x.constStr(a[0], "label"), "bool", t)
		return BoolV{t}
	case "NondetU64":
		return x.nondetIntTyped(x.constStr(a[0], "label"), 64, false)
	case "NondetI64":
		return x.nondetIntTyped(x.constStr(a[0], "label"), 64, true)
	case "NondetU32":
		return x.nondetIntTyped(x.constStr(a[0], "label"), 32, false)
	case "NondetI32":
		return x.nondetIntTyped(x.constStr(a[0], "label"), 32, true)
	case "NondetU8":
		return x.nondetIntTyped(x.constStr(a[0], "label"), 8, false)
	case "NondetInt":
		return x.nondetIntTyped(x.constStr(a[0], "label"), 64, true)
	case "NondetRange":
		lo := x.concreteInt(a[1], "range lo")
		hi := x.concreteInt(a[2], "range hi")
		return x.nondetRange(x.constStr(a[0], "label"), int64(lo), int64(hi))
	case "NondetChoice":
		n := x.concreteInt(a[1], "choice arity")
		k := x.Choose(n, x.constStr(a[0], "label"))
		x.addNondet(x.constStr(a[0], "label"), "choice", B.Int(int64(k)))
		return IntV{B.Int(int64(k))}
	case "Bound":
		def := x.concreteInt(a[1], "bound default")
		return IntV{B.Int(int64(x.Cfg.Bound(x.constStr(a[0], "bound name"), def)))}
	case "NondetAtom":
		return StrV{Atom: x.nondetAtom(x.constStr(a[0], "label"))}
	case "NondetBytesAtom":
		return SliceV{Atom: x.nondetAtom(x.constStr(a[0], "label"))}
	case "NondetString":
		n := x.concreteInt(a[1], "string length")
		if n == 0 {
			return StrV{IsConst: true, S: ""}
		}
		return StrV{Bytes: x.nondetContent(x.constStr(a[0], "label"), n)}
	case "NondetBytes":
		n := x.concreteInt(a[1], "byte length")
		bs := x.nondetContent(x.constStr(a[0], "label"), n)
		es := make([]Value, n)
		for i := range es {
			es[i] = IntV{bs[i]}
		}
		if n == 0 {
			return SliceV{Arr: x.newObj(ArrayV{nil}, "bytes"), Len: 0, Cap: 0}
		}
		return x.mkSlice(es)
	case "B58String":
		// a base58check string with the given payload and version (see intr_data.go)
		in := a[0].(SliceV)
		out := []*smt.Term{B.Add(a[1].(IntV).T, B.Int(b58Version))}
		for _, e := range x.sliceElems(in) {
			out = append(out, B.Add(e.(IntV).T, B.Int(b58Payload)))
		}
		return StrV{Bytes: out}
	case "NondetInto":
		label := x.constStr(a[0], "label")
		iv, ok := a[1].(IfaceV)
		if !ok {
			x.Unsupported("NondetInto needs a pointer")
		}
		p := iv.V.(PtrV)
		elem := iv.T.Underlying().(*types.Pointer).Elem()
		x.store(p, x.nondetOfType(label, elem, 0))
		return nil
	case "Assume":
		bv := a[0].(BoolV)
		x.AssumeChecked(bv.T, "harness assume @"+c.Pos())
		return nil
	case "Assert":
		x.Assert(a[0].(BoolV).T, x.constStr(a[1], "assertion name"))
		return nil
	case "Reach":
		x.Reach(x.constStr(a[0], "reach name"))
		return nil
	case "Fail":
		x.Assert(B.False, x.constStr(a[0], "assertion name"))
		return nil
	case "And":
		return BoolV{B.And(a[0].(BoolV).T, a[1].(BoolV).T)}
	case "Or":
		return BoolV{B.Or(a[0].(BoolV).T, a[1].(BoolV).T)}
	case "Not":
		return BoolV{B.Not(a[0].(BoolV).T)}
	case "Implies":
		return BoolV{B.Implies(a[0].(BoolV).T, a[1].(BoolV).T)}
	case "AssumeRange":
		// an assumption lo <= v <= hi that is also recorded as the term's interval
		t := a[0].(IntV).T
		lo, _ := a[1].(IntV).T.ConstInt64()
		hi, _ := a[2].(IntV).T.ConstInt64()
		x.setBounds(t, lo, hi, "harness range assumption @"+c.Pos())
		return nil
	case "NoMerge":
		x.noMerge = true
		return nil
	case "Concretize":
		lo, _ := a[1].(IntV).T.ConstInt64()
		hi, _ := a[2].(IntV).T.ConstInt64()
		return IntV{B.Int(int64(x.ConcretizeInt(a[0].(IntV).T, int(lo), int(hi), "harness value @"+c.Pos())))}
	case "Summarize":
		x.localSumm[x.constStr(a[0], "function name")] = true
		return nil
	case "MergeCallee":
		x.localMerge[x.constStr(a[0], "function name")] = true
		return nil
	case "Merged":
		f, ok := unwrapIface(a[0]).(FuncV)
		if !ok || f.Fn == nil {
			x.Unsupported("Merged needs a function literal")
		}
		return x.mergeCall(f.Fn, nil, f.Bind)
	case "Symbolic":
		return BoolV{B.True}
	case "StrEq":
		return BoolV{x.stringEq(a[0].(StrV), a[1].(StrV))}
	case "BytesEq":
		return BoolV{x.bytesEq(a[0], a[1])}
	case "ErrIsNil":
		if ce, ok := a[0].(CondErrV); ok {
			return BoolV{B.Not(ce.Cond)}
		}
		n, _ := isNilValue(a[0])
		return BoolV{B.Bool(n)}
	case "IsNilErr":
		n, _ := isNilValue(a[0])
		return BoolV{B.Bool(n)}
	case "Note":
		x.Notes = append(x.Notes, x.constStr(a[0], "note"))
		return nil
	case "Label":
		// attach a name to a value so that it shows up in counterexamples
		label := x.constStr(a[0], "label")
		iv, _ := a[1].(IfaceV)
		x.labelValue(label, iv.V)
		return nil
	}
	if v, ok := x.zzverifDec(name, c); ok {
		return v
	}
	if v, ok := x.zzverifEnv(name, c); ok {
		return v
	}
	if v, ok := x.zzverifStub(name, c); ok {
		return v
	}
	x.Unsupported("unknown zzverif primitive %s", name)
	return nil
}

func (x *Exec) labelValue(label string, v Value) {
	switch u := v.(type) {
	case IntV:
		x.WantModel(label, u.T)
	case BoolV:
		x.WantModel(label, u.T)
	case StrV:
		if u.Atom != nil {
			x.WantModel(label, u.Atom)
		}
		for i, b := range u.Bytes {
			x.WantModel(fmt.Sprintf("%s[%d]", label, i), b)
		}
	case RealV:
		x.WantModel(label, u.T)
	case TimeV:
		x.WantModel(label+".sec", u.Sec)
		x.WantModel(label+".nsec", u.Nsec)
	}
}

func (x *Exec) bytesEq(a, b Value) *smt.Term {
	sa, oka := a.(SliceV)
	sb, okb := b.(SliceV)
	if !oka || !okb {
		x.Unsupported("bytes comparison of %T and %T", a, b)
	}
	return x.stringEq(x.bytesToString(sa).(StrV), x.bytesToString(sb).(StrV))
}

// nondetOfType builds an arbitrary value of a Go type: scalars symbolic, strings and byte
// slices opaque atoms, repeated fields with a length chosen below the bound
// "list" (each length is a separate path), optional message pointers nil or set.
func (x *Exec) nondetOfType(label string, t types.Type, depth int) Value {
	return x.nondetOfTypeOpt(label, t, depth, true)
}

func (x *Exec) nondetOfTypeOpt(label string, t types.Type, depth int, optional bool) Value {
	if depth > 6 {
		x.Unsupported("nondet of type %v: too deep", t)
	}
	B := x.B
	switch typeName(t) {
	case "time.Time":
		return x.nondetTime(label)
	case "math/big.Int":
		m := B.Var("nd_"+label+".mag", smt.SInt)
		x.Assume(B.Ge(m, B.Int(0)), "big magnitude")
		n := B.Var("nd_"+label+".neg", smt.SBool)
		x.addNondet(label, "big", m, n)
		return BigV{Neg: n, Buf: x.newObj(BufContent{Mag: m}, "bigbuf")}
	case "github.com/cockroachdb/apd/v2.Decimal":
		return x.nondetApd(label)
	case "cosmossdk.io/math.Int":
		return x.nondetSdkInt(label)
	case "github.com/cosmos/cosmos-sdk/types.Coin":
		return x.nondetCoin(label)
	}
	switch u := t.Underlying().(type) {
	case *types.Basic:
		switch {
		case u.Info()&types.IsBoolean != 0:
			v := B.Var("nd_"+label, smt.SBool)
			x.addNondet(label, "bool", v)
			return BoolV{v}
		case u.Info()&types.IsInteger != 0:
			bits, signed, _ := intInfo(t)
			return x.nondetIntTyped(label, bits, signed)
		case u.Info()&types.IsString != 0:
			return StrV{Atom: x.nondetAtom(label)}
		}
	case *types.Struct:
		f := make([]Value, u.NumFields())
		for i := range f {
			fld := u.Field(i)
			if strings.HasPrefix(fld.Name(), "XXX_") || fld.Name() == "state" || fld.Name() == "sizeCache" || fld.Name() == "unknownFields" {
				f[i] = x.zero(fld.Type())
				continue
			}
			f[i] = x.nondetOfType(label+"."+fld.Name(), fld.Type(), depth+1)
		}
		return StructV{f}
	case *types.Pointer:
		if _, ok := u.Elem().Underlying().(*types.Struct); ok {
			tn := typeName(u.Elem())
			opt := true
			if tn == "time.Time" || strings.HasSuffix(tn, ".Timestamp") || strings.HasSuffix(tn, ".Duration") {
				opt = true
			}
			if opt && optional && x.Choose(2, label+" nil?") == 1 {
				x.addNondet(label+".isnil", "choice", B.Int(1))
				return PtrV{}
			}
			return PtrV{Obj: x.newObj(x.nondetOfType(label, u.Elem(), depth+1), label)}
		}
	case *types.Slice:
		if b, ok := u.Elem().Underlying().(*types.Basic); ok && b.Kind() == types.Uint8 {
			return SliceV{Atom: x.nondetAtom(label)}
		}
		lo := 0
		hi := x.Cfg.Bound("list", 2)
		if v, ok := x.Cfg.Bounds["list:"+label]; ok {
			hi = v
		}
		if v, ok := x.Cfg.Bounds["listmin:"+label]; ok {
			lo = v
		}
		n := lo + x.Choose(hi-lo+1, label+" length")
		x.addNondet(label+".len", "choice", B.Int(int64(n)))
		es := make([]Value, n)
		for i := range es {
			// elements of repeated message fields are never nil (protobuf decoding)
			es[i] = x.nondetOfTypeOpt(fmt.Sprintf("%s[%d]", label, i), u.Elem(), depth+1, false)
		}
		if n == 0 {
			return SliceV{Nil: true}
		}
		return x.mkSlice(es)
	case *types.Interface:
		return x.nondetIface(label, t, depth)
	case *types.Array:
		es := make([]Value, int(u.Len()))
		for i := range es {
			es[i] = x.nondetOfType(fmt.Sprintf("%s[%d]", label, i), u.Elem(), depth+1)
		}
		return ArrayV{es}
	}
	x.Unsupported("nondet of type %v", t)
	return nil
}

// nondetIface handles protobuf oneof fields: the interface's implementations are the
// wrapper structs declared in the same package.
func (x *Exec) nondetIface(label string, t types.Type, depth int) Value {
	n, ok := types.Unalias(t).(*types.Named)
	if !ok || n.Obj().Pkg() == nil {
		return IfaceV{}
	}
	it := t.Underlying().(*types.Interface)
	var impls []types.Type
	scope := n.Obj().Pkg().Scope()
	for _, name := range scope.Names() {
		tn, ok := scope.Lookup(name).(*types.TypeName)
		if !ok {
			continue
		}
		if _, isStruct := tn.Type().Underlying().(*types.Struct); !isStruct {
			continue
		}
		pt := types.NewPointer(tn.Type())
		if types.Implements(pt, it) && it.NumMethods() > 0 {
			impls = append(impls, pt)
		}
	}
	k := x.Choose(len(impls)+1, label+" oneof")
	x.addNondet(label+".oneof", "choice", x.B.Int(int64(k)))
	if k == 0 {
		return IfaceV{}
	}
	pt := impls[k-1]
	elem := pt.(*types.Pointer).Elem()
	obj := x.newObj(x.nondetOfType(label, elem, depth+1), label)
	return IfaceV{T: pt, V: PtrV{Obj: obj}}
}
