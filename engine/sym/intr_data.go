package sym

import (
	"math/big"

	"verif/engine/smt"
)

// base58check is modelled as an explicit injective encoding into pseudo-characters that
// no ordinary byte can equal: version v -> 2000+v, payload byte b -> 1000+b. Decoding
// succeeds exactly on strings of that shape. This realises "an uninterpreted bijection
// between (version, payload) and base-58 strings" (checksum abstracted).
const (
	b58Payload = 1000
	b58Version = 2000
)

func registerData(p *Program) {
	p.Interpret["bytes"] = true
	enc := func(x *Exec, c *CallCtx) Value {
		B := x.B
		in := c.Args[0].(SliceV)
		if in.Atom != nil {
			x.Unsupported("base58.CheckEncode of an opaque byte string")
		}
		ver := c.Args[1].(IntV).T
		out := []*smt.Term{B.Add(ver, B.Int(b58Version))}
		for _, e := range x.sliceElems(in) {
			out = append(out, B.Add(e.(IntV).T, B.Int(b58Payload)))
		}
		return StrV{Bytes: out}
	}
	p.Intr["github.com/cosmos/btcutil/base58.CheckEncode"] = enc
	p.Intr["github.com/cosmos/btcutil/base58.CheckDecode"] = func(x *Exec, c *CallCtx) Value {
		B := x.B
		s := c.Args[0].(StrV)
		fail := func() Value {
			return TupleV{SliceV{Nil: true}, IntV{B.Int(0)}, x.newErr("base58", "invalid format or checksum")}
		}
		bs, ok := x.contentOf(s)
		if !ok {
			x.Unsupported("base58.CheckDecode of an opaque string")
		}
		if len(bs) < 1 {
			return fail()
		}
		okT := B.And(B.Le(B.Int(b58Version), bs[0]), B.Le(bs[0], B.Int(b58Version+255)))
		for _, b := range bs[1:] {
			okT = B.And(okT, B.Le(B.Int(b58Payload), b), B.Le(b, B.Int(b58Payload+255)))
		}
		if !x.Branch(okT) {
			return fail()
		}
		es := make([]Value, len(bs)-1)
		for i, b := range bs[1:] {
			t := B.Sub(b, B.Int(b58Payload))
			t.Lo, t.Hi = big.NewInt(0), big.NewInt(255)
			es[i] = IntV{t}
		}
		var payload Value
		if len(es) == 0 {
			payload = SliceV{Arr: x.newObj(ArrayV{nil}, "bytes"), Len: 0, Cap: 0}
		} else {
			payload = x.mkSlice(es)
		}
		ver := B.Sub(bs[0], B.Int(b58Version))
		return TupleV{payload, IntV{ver}, IfaceV{}}
	}
	p.Intr["reflect.DeepEqual"] = func(x *Exec, c *CallCtx) Value {
		a, b := unwrapIface(c.Args[0]), unwrapIface(c.Args[1])
		sa, ok1 := a.(SliceV)
		sb, ok2 := b.(SliceV)
		if ok1 && ok2 {
			if sa.Nil || sb.Nil {
				if sa.Atom != nil || sb.Atom != nil {
					o := sa
					if sa.Nil {
						o = sb
					}
					return BoolV{x.B.Eq(o.Atom, x.B.StrConst(""))}
				}
				return BoolV{x.B.Bool(sa.Nil && sb.Nil)}
			}
			return BoolV{x.bytesEq(sa, sb)}
		}
		x.Unsupported("reflect.DeepEqual(%T, %T)", a, b)
		return nil
	}
	p.Intr["strings.Split"] = func(x *Exec, c *CallCtx) Value {
		s := c.Args[0].(StrV)
		sep := x.constStr(c.Args[1], "separator")
		if len(sep) != 1 {
			x.Unsupported("strings.Split with separator %q", sep)
		}
		bs, ok := x.contentOf(s)
		if !ok {
			x.Unsupported("strings.Split of an opaque string")
		}
		var parts []Value
		var cur []*smt.Term
		for _, b := range bs {
			if x.Branch(x.B.Eq(b, x.B.Int(int64(sep[0])))) {
				parts = append(parts, x.normStr(cur))
				cur = nil
			} else {
				cur = append(cur, b)
			}
		}
		parts = append(parts, x.normStr(cur))
		return x.mkSlice(parts)
	}
}
