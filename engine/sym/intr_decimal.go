package sym

import (
	"fmt"
	"go/constant"
	"go/types"
	"math/big"
	"strings"

	"verif/engine/smt"
)

// RealV is an exact rational value (zzverif.Q on the Go side).
type RealV struct{ T *smt.Term }

// SdkIntV is a cosmossdk.io/math.Int.
type SdkIntV struct {
	T   *smt.Term // Int
	Nil bool
}

const (
	apdPkg = "github.com/cockroachdb/apd/v2"
	fForm  = 0
	fNeg   = 1
	fExp   = 2
	fCoeff = 3
)

func pow10(k int) *big.Int { return new(big.Int).Exp(big.NewInt(10), big.NewInt(int64(k)), nil) }

func (x *Exec) setBounds(t *smt.Term, lo, hi int64, label string) {
	if t.IsConst() {
		return
	}
	x.Assume(x.B.And(x.B.Le(x.B.Int(lo), t), x.B.Le(t, x.B.Int(hi))), label)
	if t.Lo == nil || t.Lo.Cmp(big.NewInt(lo)) < 0 {
		t.Lo = big.NewInt(lo)
	}
	if t.Hi == nil || t.Hi.Cmp(big.NewInt(hi)) > 0 {
		t.Hi = big.NewInt(hi)
	}
}

func (x *Exec) expLo() int64 { return int64(x.Cfg.Bound("exp_lo", -12)) }
func (x *Exec) expHi() int64 { return int64(x.Cfg.Bound("exp_hi", 12)) }
func (x *Exec) digits() int  { return x.Cfg.Bound("digits", 45) }

// p10 is 10^e as a Real term (ite table over e's interval).
func (x *Exec) p10(e *smt.Term) *smt.Term {
	e = x.tryConst(e)
	return x.B.Pow10Table(e, -150, 150, true)
}

// tryConst replaces an integer term by a constant when the path condition forces its value
// (two solver queries, memoised). It keeps power-of-ten tables small when, for example, a
// precision read from state is pinned by the row invariant.
func (x *Exec) tryConst(e *smt.Term) *smt.Term {
	if e.IsConst() || x.merge != nil {
		return e
	}
	if e.Lo != nil && e.Hi != nil && new(big.Int).Sub(e.Hi, e.Lo).Cmp(big.NewInt(40)) <= 0 {
		return e
	}
	if c, ok := x.constMemo[e.ID]; ok {
		if c == nil {
			return e
		}
		return c
	}
	x.syncConstAxioms()
	res, vals := x.S.CheckModel(nil, []*smt.Term{e})
	x.constMemo[e.ID] = nil
	if res != smt.Sat {
		return e
	}
	v, ok := parseSMTInt(vals[e.ID])
	if !ok {
		return e
	}
	c := x.B.BigInt(v)
	if x.S.Check(x.B.Not(x.B.Eq(e, c))) == smt.Unsat {
		x.constMemo[e.ID] = c
		return c
	}
	return e
}

func parseSMTInt(s string) (*big.Int, bool) {
	s = strings.TrimSpace(s)
	neg := false
	if strings.HasPrefix(s, "(-") {
		neg = true
		s = strings.TrimSuffix(strings.TrimSpace(s[2:]), ")")
		s = strings.TrimSpace(s)
	}
	v, ok := new(big.Int).SetString(s, 10)
	if !ok {
		return nil, false
	}
	if neg {
		v.Neg(v)
	}
	return v, true
}

// ---- big.Int

func (x *Exec) bufMag(b BigV) *smt.Term {
	if b.Buf == nil {
		return x.B.Int(0)
	}
	c := b.Buf.Val.(BufContent)
	if c.Mag != nil {
		return c.Mag
	}
	// deferred coefficient: V * 10^-E
	x.linkMag(c.V)
	if ec, ok := c.E.ConstInt64(); ok && ec == 0 {
		return x.B.Floor(c.V)
	}
	return x.B.Floor(x.B.Mul(c.V, x.p10(x.B.Neg(c.E))))
}

// bigSigned returns the signed integer value.
func (x *Exec) bigSigned(b BigV) *smt.Term {
	m := x.bufMag(b)
	return x.B.Ite(b.Neg, x.B.Neg(m), m)
}

func (x *Exec) loadBig(p Value) BigV {
	v := x.load(p)
	b, ok := v.(BigV)
	if !ok {
		x.Unsupported("expected *big.Int, got pointer to %T", v)
	}
	return b
}

// writeBig stores a new value through the receiver pointer z following math/big's
// buffer discipline: a nil buffer is allocated; an existing buffer may be reused in place
// (both are explored) unless mustAlloc (mul/exp with an aliasing operand).
func (x *Exec) writeBig(z Value, neg *smt.Term, content BufContent, mustAlloc bool) {
	old := x.loadBig(z)
	var buf *Object
	if old.Buf == nil || mustAlloc || x.merge != nil {
		buf = x.newObj(content, "bigbuf")
	} else if x.Choose(2, "big.Int buffer reuse") == 0 {
		old.Buf.Val = content
		buf = old.Buf
	} else {
		buf = x.newObj(content, "bigbuf")
	}
	x.store(z, BigV{Neg: neg, Buf: buf})
}

func (x *Exec) mkBigFromSigned(t *smt.Term) (neg *smt.Term, mag *smt.Term) {
	B := x.B
	if c, ok := t.ConstInt64(); ok {
		if c < 0 {
			return B.True, B.Int(-c)
		}
		return B.False, B.Int(c)
	}
	if t.Op == "ci" {
		return B.Bool(t.Int.Sign() < 0), B.BigInt(new(big.Int).Abs(t.Int))
	}
	n := B.Lt(t, B.Int(0))
	return n, B.Ite(n, B.Neg(t), t)
}

func (x *Exec) newBigPtr(t *smt.Term) Value {
	neg, mag := x.mkBigFromSigned(t)
	return PtrV{Obj: x.newObj(BigV{Neg: neg, Buf: x.newObj(BufContent{Mag: mag}, "bigbuf")}, "big.Int")}
}

// ---- apd.Decimal

type decParts struct {
	Form *smt.Term // Int
	Neg  *smt.Term // Bool
	Exp  *smt.Term // Int
	Mag  *smt.Term // Real >= 0, |value|
	Big  BigV
}

func (x *Exec) decOf(v Value) decParts {
	s, ok := v.(StructV)
	if !ok || len(s.F) != 4 {
		x.Unsupported("expected apd.Decimal, got %T", v)
	}
	d := decParts{Form: s.F[fForm].(IntV).T, Neg: s.F[fNeg].(BoolV).T, Exp: s.F[fExp].(IntV).T}
	d.Big = s.F[fCoeff].(BigV)
	B := x.B
	if d.Big.Buf == nil {
		d.Mag = B.RealInt(0)
		return d
	}
	c := d.Big.Buf.Val.(BufContent)
	if c.V != nil && c.E == d.Exp {
		d.Mag = c.V
		return d
	}
	m := x.bufMag(d.Big)
	d.Mag = B.Mul(B.ToReal(m), x.p10(d.Exp))
	return d
}

func (d decParts) signed(B *smt.Builder) *smt.Term {
	return B.Ite(d.Neg, B.Neg(d.Mag), d.Mag)
}

func (x *Exec) mkDec(form, neg, exp, mag *smt.Term) StructV {
	buf := x.newObj(BufContent{V: mag, E: exp}, "decbuf")
	return StructV{F: []Value{IntV{form}, BoolV{neg}, IntV{exp}, BigV{Neg: x.B.False, Buf: buf}}}
}

// storeDec writes a decimal result through d (an *apd.Decimal), honouring buffer reuse.
func (x *Exec) storeDec(dp Value, form, neg, exp, mag *smt.Term) {
	old := x.load(dp).(StructV)
	ob := old.F[fCoeff].(BigV)
	content := BufContent{V: mag, E: exp}
	var buf *Object
	if ob.Buf == nil || x.merge != nil {
		buf = x.newObj(content, "decbuf")
	} else if x.Choose(2, "apd coefficient buffer reuse") == 0 {
		ob.Buf.Val = content
		buf = ob.Buf
	} else {
		buf = x.newObj(content, "decbuf")
	}
	x.store(dp, StructV{F: []Value{IntV{form}, BoolV{neg}, IntV{exp}, BigV{Neg: x.B.False, Buf: buf}}})
}

func (x *Exec) requireFinite(d decParts, what string) {
	if c, ok := d.Form.ConstInt64(); ok {
		if c != 0 {
			x.Unsupported("%s on a non-finite decimal", what)
		}
		return
	}
	if x.merge != nil {
		// a Dec is always finite (its constructors reject NaN and infinities); inside a merged
		// callee this is a local precondition rather than a path fork
		x.merge.conds = append(x.merge.conds, x.B.Eq(d.Form, x.B.Int(0)))
		return
	}
	if !x.Branch(x.B.Eq(d.Form, x.B.Int(0))) {
		x.Unsupported("%s on a non-finite decimal", what)
	}
}

type apdCtx struct {
	Precision int
	Traps     int64
}

// condition flag values: defaults from apd v2 condition.go, overwritten at registration with
// the constants of the apd package actually loaded
var (
	condInexact int64 = 1 << 4
	condRounded int64 = 1 << 6
)

func (x *Exec) ctxOf(v Value) apdCtx {
	s := x.load(v).(StructV)
	p := x.concreteInt(s.F[0], "apd.Context.Precision")
	tr, ok := s.F[3].(IntV).T.ConstInt64()
	if !ok {
		x.Unsupported("symbolic apd.Context.Traps")
	}
	if r, ok := s.F[4].(StrV); ok && (!r.IsConst || (r.S != "" && r.S != "half_up")) {
		x.Unsupported("apd rounding mode %v", r)
	}
	return apdCtx{Precision: p, Traps: tr}
}

// condResult builds the (Condition, error) result honouring the context's traps.
func (x *Exec) condResult(ctx apdCtx, rounded, inexact *smt.Term) Value {
	B := x.B
	trapR := ctx.Traps&condRounded != 0
	trapI := ctx.Traps&condInexact != 0
	var trapped *smt.Term = B.False
	if trapR {
		trapped = B.Or(trapped, rounded)
	}
	if trapI {
		trapped = B.Or(trapped, inexact)
	}
	cond := B.Add(B.Ite(rounded, B.Int(condRounded), B.Int(0)), B.Ite(inexact, B.Int(condInexact), B.Int(0)))
	if x.Branch(trapped) {
		return TupleV{IntV{cond}, x.newErr("apd-trap", "condition trapped")}
	}
	return TupleV{IntV{cond}, IfaceV{}}
}

// roundTo rounds magnitude mag (with ideal exponent e) to the context precision and
// returns (mag', e', rounded, inexact). Precision 0 = exact.
func (x *Exec) roundTo(ctx apdCtx, mag, e *smt.Term) (*smt.Term, *smt.Term, *smt.Term, *smt.Term) {
	B := x.B
	if ctx.Precision == 0 {
		return mag, e, B.False, B.False
	}
	P := int64(ctx.Precision)
	// rounded iff coefficient = mag*10^-e >= 10^P  <=>  mag >= 10^(P+e)
	rounded := B.Ge(mag, x.p10(B.Add(e, B.Int(P))))
	if rounded.IsFalse() {
		return mag, e, B.False, B.False
	}
	if !x.Branch(rounded) {
		return mag, e, B.False, B.False
	}
	if x.Cfg.Bound("round_abstract", 0) == 1 {
		// relational model of the rounded result (handler-level runs): some value within
		// half a unit of the P-th significant digit, i.e. relative error <= 5*10^-P
		mag2 := B.App("rounded_f", smt.SReal, mag, e, B.Int(P))
		e2 := B.App("roundedexp_f", smt.SInt, mag, e, B.Int(P))
		eps := B.RatC(new(big.Rat).SetFrac(big.NewInt(5), pow10(int(P))))
		x.AssumeLocal(B.And(B.Ge(mag2, B.RealInt(0)), B.Gt(e2, e),
			B.Le(B.Mul(mag, B.Sub(B.RealInt(1), eps)), mag2), B.Le(mag2, B.Mul(mag, B.Add(B.RealInt(1), eps)))), "rounded result within half an ulp (relational)")
		return mag2, e2, B.True, B.Not(B.Eq(mag2, mag))
	}
	// position m of the leading digit: 10^(m-1) <= mag < 10^m
	m := B.App("lead_f", smt.SInt, mag)
	lo := x.expLo()*2 + P
	hi := x.expHi()*2 + int64(2*x.digits()) + 2
	x.setBounds(m, lo, hi, "leading digit position")
	x.AssumeLocal(B.And(B.Le(x.p10(B.Sub(m, B.Int(1))), mag), B.Lt(mag, x.p10(m))), "leading digit")
	ulpE := B.Sub(m, B.Int(P))
	q := B.Mul(mag, x.p10(B.Neg(ulpE)))
	r := B.Floor(B.Add(q, B.RatC(big.NewRat(1, 2))))
	mag2 := B.Mul(B.ToReal(r), x.p10(ulpE))
	carry := B.Eq(mag2, x.p10(m))
	e2 := B.Ite(carry, B.Add(ulpE, B.Int(1)), ulpE)
	inexact := B.Not(B.Eq(mag2, mag))
	return mag2, e2, B.True, inexact
}

func registerDecimal(p *Program) {
	if sp := p.ByPath[apdPkg]; sp != nil {
		for name, dst := range map[string]*int64{"Inexact": &condInexact, "Rounded": &condRounded} {
			if c, ok := sp.Pkg.Scope().Lookup(name).(*types.Const); ok {
				if v, exact := constant.Int64Val(constant.ToInt(c.Val())); exact {
					*dst = v
				}
			}
		}
	}
	ctxOp := func(op string) Intrinsic {
		return func(x *Exec, c *CallCtx) Value {
			B := x.B
			ctx := x.ctxOf(c.Args[0])
			dp := c.Args[1]
			a := x.decOf(x.load(c.Args[2]))
			b := x.decOf(x.load(c.Args[3]))
			x.requireFinite(a, op)
			x.requireFinite(b, op)
			zero := B.RealInt(0)
			switch op {
			case "Add", "Sub":
				bn := b.Neg
				if op == "Sub" {
					bn = B.Not(b.Neg)
				}
				sa := a.signed(B)
				sb := B.Ite(bn, B.Neg(b.Mag), b.Mag)
				sum := B.Add(sa, sb)
				e := B.Ite(B.Le(a.Exp, b.Exp), a.Exp, b.Exp)
				mag := B.Ite(B.Lt(sum, zero), B.Neg(sum), sum)
				// sign: same signs keep it (also for zero); otherwise sign of the result, +0 for zero
				neg := B.Ite(B.Eq(a.Neg, bn), a.Neg, B.Lt(sum, zero))
				mag2, e2, rounded, inexact := x.roundTo(ctx, mag, e)
				x.storeDec(dp, B.Int(0), neg, e2, mag2)
				return x.condResult(ctx, rounded, inexact)
			case "Mul":
				neg := B.Neq(a.Neg, b.Neg)
				var mag *smt.Term
				if (x.Cfg.Bound("round_abstract", 0) == 1 || x.Cfg.Bound("mul_abstract", 0) == 1) && !a.Mag.IsConst() && !b.Mag.IsConst() {
					// handler-level runs: the product of two symbolic magnitudes is an uninterpreted
					// function with the order facts the handlers rely on (exact products are the
					// subject of the C07/C19 kernels)
					mag = B.App("realmul", smt.SReal, a.Mag, b.Mag)
					if !x.lenAxiom[mag.ID] {
						x.lenAxiom[mag.ID] = true
						one := B.RealInt(1)
						x.Assume(B.And(B.Ge(mag, zero),
							B.Eq(B.Eq(mag, zero), B.Or(B.Eq(a.Mag, zero), B.Eq(b.Mag, zero))),
							B.Implies(B.Le(b.Mag, one), B.Le(mag, a.Mag)), B.Implies(B.Ge(b.Mag, one), B.Ge(mag, a.Mag)),
							B.Implies(B.Le(a.Mag, one), B.Le(mag, b.Mag)), B.Implies(B.Ge(a.Mag, one), B.Ge(mag, b.Mag))), "abstract product")
					}
				} else {
					mag = B.Mul(a.Mag, b.Mag)
				}
				e := B.Add(a.Exp, b.Exp)
				mag2, e2, rounded, inexact := x.roundTo(ctx, mag, e)
				x.storeDec(dp, B.Int(0), neg, e2, mag2)
				return x.condResult(ctx, rounded, inexact)
			case "Quo":
				if x.Branch(B.Eq(b.Mag, zero)) {
					// division by zero / undefined: trapped by DefaultTraps
					x.storeDec(dp, B.Int(3), B.False, B.Int(0), zero)
					return TupleV{IntV{B.Int(0)}, x.newErr("apd-trap", "division by zero")}
				}
				if ctx.Precision == 0 {
					return TupleV{IntV{B.Int(0)}, x.newErr("apd", "zero precision")}
				}
				neg := B.Neq(a.Neg, b.Neg)
				if x.Branch(B.Eq(a.Mag, zero)) {
					x.storeDec(dp, B.Int(0), neg, B.Sub(a.Exp, b.Exp), zero)
					return x.condResult(ctx, B.False, B.False)
				}
				// division by a power of ten 1*10^k: apd's long division reproduces the dividend's
				// coefficient digit by digit, so with at most P digits the result is exact with
				// exponent e_x - k (no search for the quotient's exponent is needed)
				if bm, ok := b.Mag.ConstInt64(); ok && b.Mag.Op == "ci" || (b.Mag.Op == "cr" && b.Mag.Rat.IsInt()) {
					_ = bm
					if bk, ok2 := b.Exp.ConstInt64(); ok2 && bk >= 0 && bk < 60 {
						var bmag *big.Int
						if b.Mag.Op == "ci" {
							bmag = b.Mag.Int
						} else {
							bmag = b.Mag.Rat.Num()
						}
						if bmag.Cmp(pow10(int(bk))) == 0 {
							fits := B.Lt(a.Mag, x.p10(B.Add(a.Exp, B.Int(int64(ctx.Precision)))))
							if x.Branch(fits) {
								x.storeDec(dp, B.Int(0), neg, B.Sub(a.Exp, B.Int(bk)), B.Mul(a.Mag, B.RatC(new(big.Rat).SetFrac(big.NewInt(1), bmag))))
								return x.condResult(ctx, B.False, B.False)
							}
						}
					}
				}
				x.linkMag(a.Mag)
				x.linkMag(b.Mag)
				var q *smt.Term
				if x.Cfg.Bound("mul_abstract", 0) == 1 && !b.Mag.IsConst() {
					// kernel runs with abstract products: the quotient of two symbolic magnitudes is
					// an uninterpreted positive real (the oracle's QDiv is the same function), so
					// the obligations hold for every value the quotient may take
					q = B.App("realdiv", smt.SReal, a.Mag, b.Mag)
					if !x.lenAxiom[q.ID] {
						x.lenAxiom[q.ID] = true
						x.Assume(B.Gt(q, zero), "abstract quotient of non-zero magnitudes is positive")
					}
				} else {
					q = B.RDiv(a.Mag, b.Mag)
				}
				P := int64(ctx.Precision)
				if x.Cfg.Bound("mul_abstract", 0) == 1 && !b.Mag.IsConst() {
					// relational summary of apd's division on the abstract quotient: either the
					// quotient is representable in P digits and is returned exactly with no flag, or
					// the result is within half a unit of the P-th digit and Rounded|Inexact are set
					lo := x.expLo()*2 - int64(x.digits()) - 2 - P
					hi := x.expHi()*2 + int64(x.digits()) + 2
					if x.Branch(B.App("quo_exact", smt.SBool, a.Mag, b.Mag)) {
						e := B.App("qexp_abs_f", smt.SInt, a.Mag, b.Mag, a.Exp, b.Exp)
						x.setBounds(e, lo, hi, "quotient exponent")
						x.AssumeLocal(B.Le(e, B.Sub(a.Exp, b.Exp)), "quotient exponent at most the ideal exponent")
						x.storeDec(dp, B.Int(0), neg, e, q)
						return x.condResult(ctx, B.False, B.False)
					}
					mag2 := B.App("quorounded_f", smt.SReal, a.Mag, b.Mag, B.Int(P))
					e2 := B.App("quoroundedexp_f", smt.SInt, a.Mag, b.Mag, a.Exp, b.Exp, B.Int(P))
					x.setBounds(e2, lo, hi, "rounded quotient exponent")
					eps := B.RatC(new(big.Rat).SetFrac(big.NewInt(5), pow10(int(P))))
					x.AssumeLocal(B.And(B.Gt(mag2, zero), B.Le(B.Mul(q, B.Sub(B.RealInt(1), eps)), mag2), B.Le(mag2, B.Mul(q, B.Add(B.RealInt(1), eps)))), "rounded quotient within half an ulp (relational)")
					x.storeDec(dp, B.Int(0), neg, e2, mag2)
					return x.condResult(ctx, B.True, B.True)
				}
				m := B.App("qlead_f", smt.SInt, q)
				lo := x.expLo()*2 - int64(x.digits()) - 2
				hi := x.expHi()*2 + int64(x.digits()) + 2
				x.setBounds(m, lo, hi, "quotient leading digit position")
				x.AssumeLocal(B.And(B.Le(x.p10(B.Sub(m, B.Int(1))), q), B.Lt(q, x.p10(m))), "quotient leading digit")
				ulpE := B.Sub(m, B.Int(P))
				scaled := B.Mul(q, x.p10(B.Neg(ulpE)))
				exact := B.IsInt(scaled)
				ideal := B.Sub(a.Exp, b.Exp)
				if x.Branch(exact) {
					// exponent: min(ideal, largest exponent with an integral coefficient); only
					// the value and an upper bound on the exponent matter to callers
					e := B.App("qexp_f", smt.SInt, a.Mag, b.Mag, a.Exp, b.Exp)
					x.setBounds(e, lo-P, hi, "quotient exponent")
					// the division stops at the first exact digit: e is the largest exponent <= ideal
					// for which the coefficient is integral
					x.AssumeLocal(B.And(B.Le(e, ideal), B.Ge(e, ulpE), B.IsInt(B.Mul(q, x.p10(B.Neg(e)))),
						B.Or(B.Eq(e, ideal), B.Not(B.IsInt(B.Mul(q, x.p10(B.Neg(B.Add(e, B.Int(1))))))))), "quotient exponent")
					x.storeDec(dp, B.Int(0), neg, e, q)
					return x.condResult(ctx, B.False, B.False)
				}
				r := B.Floor(B.Add(scaled, B.RatC(big.NewRat(1, 2))))
				mag2 := B.Mul(B.ToReal(r), x.p10(ulpE))
				carry := B.Eq(mag2, x.p10(m))
				e2 := B.Ite(carry, B.Add(ulpE, B.Int(1)), ulpE)
				x.storeDec(dp, B.Int(0), neg, e2, mag2)
				return x.condResult(ctx, B.True, B.True)
			case "QuoInteger", "Rem":
				if x.Branch(B.Eq(b.Mag, zero)) {
					x.storeDec(dp, B.Int(3), B.False, B.Int(0), zero)
					return TupleV{IntV{B.Int(0)}, x.newErr("apd-trap", "division by zero")}
				}
				if ctx.Precision == 0 {
					return TupleV{IntV{B.Int(0)}, x.newErr("apd", "zero precision")}
				}
				qi := B.Floor(B.RDiv(a.Mag, b.Mag))
				P := ctx.Precision
				if x.Branch(B.Ge(qi, B.BigInt(pow10(P)))) {
					x.storeDec(dp, B.Int(3), B.False, B.Int(0), zero)
					return TupleV{IntV{B.Int(0)}, x.newErr("apd-trap", "division impossible")}
				}
				if op == "QuoInteger" {
					x.storeDec(dp, B.Int(0), B.Neq(a.Neg, b.Neg), B.Int(0), B.ToReal(qi))
					return x.condResult(ctx, B.False, B.False)
				}
				rem := B.Sub(a.Mag, B.Mul(B.ToReal(qi), b.Mag))
				e := B.Ite(B.Le(a.Exp, b.Exp), a.Exp, b.Exp)
				mag2, e2, rounded, inexact := x.roundTo(ctx, rem, e)
				x.storeDec(dp, B.Int(0), a.Neg, e2, mag2)
				return x.condResult(ctx, rounded, inexact)
			}
			x.Unsupported("apd.Context.%s", op)
			return nil
		}
	}
	for _, op := range []string{"Add", "Sub", "Mul", "Quo", "QuoInteger", "Rem"} {
		p.Intr["(*"+apdPkg+".Context)."+op] = ctxOp(op)
	}
	p.Intr["("+apdPkg+".Condition).Rounded"] = func(x *Exec, c *CallCtx) Value {
		t := c.Args[0].(IntV).T
		return BoolV{x.B.Eq(x.B.Mod(x.B.Div(t, x.B.Int(condRounded)), x.B.Int(2)), x.B.Int(1))}
	}
	p.Intr["("+apdPkg+".Condition).Inexact"] = func(x *Exec, c *CallCtx) Value {
		t := c.Args[0].(IntV).T
		return BoolV{x.B.Eq(x.B.Mod(x.B.Div(t, x.B.Int(condInexact)), x.B.Int(2)), x.B.Int(1))}
	}
	p.Intr["(*"+apdPkg+".Decimal).IsZero"] = func(x *Exec, c *CallCtx) Value {
		d := x.decOf(x.load(c.Args[0]))
		return BoolV{x.B.And(x.B.Eq(d.Form, x.B.Int(0)), x.B.Eq(d.Mag, x.B.RealInt(0)))}
	}
	p.Intr["(*"+apdPkg+".Decimal).Sign"] = func(x *Exec, c *CallCtx) Value {
		B := x.B
		d := x.decOf(x.load(c.Args[0]))
		z := B.And(B.Eq(d.Form, B.Int(0)), B.Eq(d.Mag, B.RealInt(0)))
		return IntV{B.Ite(z, B.Int(0), B.Ite(d.Neg, B.Int(-1), B.Int(1)))}
	}
	p.Intr["(*"+apdPkg+".Decimal).Cmp"] = func(x *Exec, c *CallCtx) Value {
		B := x.B
		a := x.decOf(x.load(c.Args[0]))
		b := x.decOf(x.load(c.Args[1]))
		x.requireFinite(a, "Cmp")
		x.requireFinite(b, "Cmp")
		sa, sb := a.signed(B), b.signed(B)
		return IntV{B.Ite(B.Lt(sa, sb), B.Int(-1), B.Ite(B.Eq(sa, sb), B.Int(0), B.Int(1)))}
	}
	p.Intr["(*"+apdPkg+".Decimal).Reduce"] = func(x *Exec, c *CallCtx) Value {
		B := x.B
		a := x.decOf(x.load(c.Args[1]))
		x.requireFinite(a, "Reduce")
		x.linkMag(a.Mag)
		if x.Branch(B.Eq(a.Mag, B.RealInt(0))) {
			x.storeDec(c.Args[0], B.Int(0), B.False, B.Int(0), B.RealInt(0))
			return TupleV{c.Args[0], IntV{B.Int(0)}}
		}
		// e' = e + (number of trailing zeros): e' >= e, and e' >= 0 iff the value is an integer.
		// The sign of e' is decided here so that the e' = 0 case carries a constant exponent.
		lo := x.expLo()*2 - int64(x.digits())
		hi := x.expHi()*2 + int64(2*x.digits())
		if x.Branch(B.IsInt(a.Mag)) {
			if x.Branch(B.And(B.Le(a.Exp, B.Int(0)), B.Not(B.IsInt(B.Mul(a.Mag, B.RatC(big.NewRat(1, 10))))))) {
				x.storeDec(c.Args[0], B.Int(0), a.Neg, B.Int(0), a.Mag)
				return TupleV{c.Args[0], IntV{B.Neg(a.Exp)}}
			}
			e2 := B.App("redexp_pos_f", smt.SInt, a.Mag, a.Exp)
			x.setBounds(e2, 1, hi, "reduced exponent")
			x.AssumeLocal(B.And(B.Ge(e2, a.Exp), B.IsInt(B.Mul(a.Mag, B.RatC(big.NewRat(1, 10))))), "reduce: positive exponent")
			if x.Cfg.Bound("reduce_exact", 0) == 1 {
				// exact mode (decimal kernels): the reduced coefficient mag/10^e' is an integer
				// that is not divisible by ten
				x.AssumeLocal(B.And(B.IsInt(B.Mul(a.Mag, x.p10(B.Neg(e2)))), B.Not(B.IsInt(B.Mul(a.Mag, x.p10(B.Sub(B.Neg(e2), B.Int(1))))))), "reduce: exact positive exponent")
			}
			x.storeDec(c.Args[0], B.Int(0), a.Neg, e2, a.Mag)
			return TupleV{c.Args[0], IntV{B.Sub(e2, a.Exp)}}
		}
		e2 := B.App("redexp_neg_f", smt.SInt, a.Mag, a.Exp)
		x.setBounds(e2, lo, -1, "reduced exponent")
		x.AssumeLocal(B.Ge(e2, a.Exp), "reduce: negative exponent")
		if x.Cfg.Bound("reduce_exact", 0) == 1 {
			x.AssumeLocal(B.And(B.IsInt(B.Mul(a.Mag, x.p10(B.Neg(e2)))), B.Not(B.IsInt(B.Mul(a.Mag, x.p10(B.Sub(B.Neg(e2), B.Int(1))))))), "reduce: exact negative exponent")
		}
		x.storeDec(c.Args[0], B.Int(0), a.Neg, e2, a.Mag)
		return TupleV{c.Args[0], IntV{B.Sub(e2, a.Exp)}}
	}
	p.Intr["(*"+apdPkg+".Decimal).SetInt64"] = func(x *Exec, c *CallCtx) Value {
		t := c.Args[1].(IntV).T
		neg, mag := x.mkBigFromSigned(t)
		x.storeDec(c.Args[0], x.B.Int(0), neg, x.B.Int(0), x.B.ToReal(mag))
		return c.Args[0]
	}
	p.Intr["(*"+apdPkg+".Decimal).SetFinite"] = func(x *Exec, c *CallCtx) Value {
		t := c.Args[1].(IntV).T
		e := x.tryConst(c.Args[2].(IntV).T)
		neg, mag := x.mkBigFromSigned(t)
		x.storeDec(c.Args[0], x.B.Int(0), neg, e, x.B.Mul(x.B.ToReal(mag), x.p10(e)))
		return c.Args[0]
	}
	p.Intr["(*"+apdPkg+".Decimal).Int64"] = func(x *Exec, c *CallCtx) Value {
		B := x.B
		d := x.decOf(x.load(c.Args[0]))
		x.requireFinite(d, "Int64")
		s := d.signed(B)
		okInt := B.And(B.IsInt(s), B.Le(B.ToReal(B.BigInt(minI64)), s), B.Le(s, B.ToReal(B.BigInt(maxI64))))
		if x.Branch(okInt) {
			return TupleV{IntV{B.Floor(s)}, IfaceV{}}
		}
		return TupleV{IntV{B.Int(0)}, x.newErr("apd", "not an int64")}
	}
	p.Intr["(*"+apdPkg+".Decimal).Text"] = func(x *Exec, c *CallCtx) Value {
		d := x.decOf(x.load(c.Args[0]))
		f, ok := c.Args[1].(IntV).T.ConstInt64()
		if !ok {
			x.Unsupported("symbolic format verb")
		}
		return x.decText(d, byte(f))
	}
	p.Intr["(*"+apdPkg+".Decimal).String"] = func(x *Exec, c *CallCtx) Value {
		return x.decText(x.decOf(x.load(c.Args[0])), 'G')
	}
	p.Intr[apdPkg+".NewFromString"] = func(x *Exec, c *CallCtx) Value {
		return x.apdNewFromString(c.Args[0].(StrV))
	}
	p.Intr[apdPkg+".New"] = func(x *Exec, c *CallCtx) Value {
		t := c.Args[0].(IntV).T
		e := c.Args[1].(IntV).T
		neg, mag := x.mkBigFromSigned(t)
		return PtrV{Obj: x.newObj(x.mkDec(x.B.Int(0), neg, e, x.B.Mul(x.B.ToReal(mag), x.p10(e))), "apd.New")}
	}

	// math/big
	p.Intr["math/big.NewInt"] = func(x *Exec, c *CallCtx) Value { return x.newBigPtr(c.Args[0].(IntV).T) }
	bigBin := func(op string) Intrinsic {
		return func(x *Exec, c *CallCtx) Value {
			B := x.B
			z := c.Args[0]
			zb := x.loadBig(z)
			a := x.loadBig(c.Args[1])
			b := x.loadBig(c.Args[2])
			alias := zb.Buf != nil && (zb.Buf == a.Buf || zb.Buf == b.Buf)
			switch op {
			case "Add", "Sub":
				sa, sb := x.bigSigned(a), x.bigSigned(b)
				var r *smt.Term
				if op == "Add" {
					r = B.Add(sa, sb)
				} else {
					r = B.Sub(sa, sb)
				}
				neg, mag := x.mkBigFromSigned(r)
				x.writeBig(z, neg, BufContent{Mag: mag}, false)
			case "Mul":
				// deferred coefficient times the matching power of ten is the value itself
				if mag, ok := x.mulDeferred(a, b); ok {
					x.writeBig(z, B.Neq(a.Neg, b.Neg), BufContent{Mag: mag}, alias)
				} else if mag, ok := x.mulDeferred(b, a); ok {
					x.writeBig(z, B.Neq(a.Neg, b.Neg), BufContent{Mag: mag}, alias)
				} else {
					x.writeBig(z, B.Neq(a.Neg, b.Neg), BufContent{Mag: B.Mul(x.bufMag(a), x.bufMag(b))}, alias)
				}
			case "Quo":
				if x.Branch(B.Eq(x.bufMag(b), B.Int(0))) {
					panic(goPanic{Msg: "division by zero"})
				}
				var mag *smt.Term
				if m, ok := x.quoDeferred(a, b); ok {
					mag = m
				} else {
					mag = B.Div(x.bufMag(a), x.bufMag(b))
				}
				qneg := B.And(B.Neq(a.Neg, b.Neg), B.Not(B.Eq(mag, B.Int(0))))
				// nat.div with a one-word divisor works in place even when z aliases the dividend
				x.writeBig(z, qneg, BufContent{Mag: mag}, false)
			}
			return z
		}
	}
	for _, op := range []string{"Add", "Sub", "Mul", "Quo"} {
		p.Intr["(*math/big.Int)."+op] = bigBin(op)
	}
	p.Intr["(*math/big.Int).Neg"] = func(x *Exec, c *CallCtx) Value {
		B := x.B
		a := x.loadBig(c.Args[1])
		var content BufContent
		if a.Buf != nil {
			content = a.Buf.Val.(BufContent)
		} else {
			content = BufContent{Mag: B.Int(0)}
		}
		nz := B.Not(B.Eq(x.bufMag(a), B.Int(0)))
		x.writeBig(c.Args[0], B.And(B.Not(a.Neg), nz), content, false)
		return c.Args[0]
	}
	p.Intr["(*math/big.Int).Set"] = func(x *Exec, c *CallCtx) Value {
		a := x.loadBig(c.Args[1])
		var content BufContent
		if a.Buf != nil {
			content = a.Buf.Val.(BufContent)
		} else {
			content = BufContent{Mag: x.B.Int(0)}
		}
		zb := x.loadBig(c.Args[0])
		if zb.Buf != nil && zb.Buf == a.Buf {
			return c.Args[0]
		}
		x.writeBig(c.Args[0], a.Neg, content, false)
		return c.Args[0]
	}
	p.Intr["(*math/big.Int).Exp"] = func(x *Exec, c *CallCtx) Value {
		B := x.B
		base := x.loadBig(c.Args[1])
		e := x.loadBig(c.Args[2])
		if n, _ := isNilValue(c.Args[3]); !n {
			x.Unsupported("big.Int.Exp with modulus")
		}
		bm, ok := x.bufMag(base).ConstInt64()
		if !ok || bm != 10 || !base.Neg.IsFalse() {
			x.Unsupported("big.Int.Exp with base other than 10")
		}
		ev := x.bigSigned(e)
		// y <= 0 gives 1
		var mag *smt.Term
		if cv, ok := ev.ConstInt64(); ok {
			if cv <= 0 {
				mag = B.Int(1)
			} else {
				mag = B.BigInt(pow10(int(cv)))
			}
		} else {
			mag = x.pow10Int(ev)
		}
		zb := x.loadBig(c.Args[0])
		alias := zb.Buf != nil && (zb.Buf == base.Buf || zb.Buf == e.Buf)
		// Exp writes z only at the end (z.abs = z.abs.expNN(...) allocates when z aliases an operand)
		x.writeBig(c.Args[0], B.False, BufContent{Mag: mag}, alias)
		return c.Args[0]
	}
	p.Intr["(*math/big.Int).Sign"] = func(x *Exec, c *CallCtx) Value {
		B := x.B
		a := x.loadBig(c.Args[0])
		m := x.bufMag(a)
		return IntV{B.Ite(B.Eq(m, B.Int(0)), B.Int(0), B.Ite(a.Neg, B.Int(-1), B.Int(1)))}
	}
	p.Intr["(*math/big.Int).Cmp"] = func(x *Exec, c *CallCtx) Value {
		B := x.B
		a, b := x.bigSigned(x.loadBig(c.Args[0])), x.bigSigned(x.loadBig(c.Args[1]))
		return IntV{B.Ite(B.Lt(a, b), B.Int(-1), B.Ite(B.Eq(a, b), B.Int(0), B.Int(1)))}
	}
	p.Intr["(*math/big.Int).SetString"] = func(x *Exec, c *CallCtx) Value {
		// z.SetString(s, 10): succeeds iff s is an optionally signed run of digits.
		B := x.B
		s := c.Args[1].(StrV)
		base, _ := c.Args[2].(IntV).T.ConstInt64()
		if base != 10 {
			x.Unsupported("big.Int.SetString base %d", base)
		}
		if s.IsConst {
			v, ok := new(big.Int).SetString(s.S, 10)
			if !ok {
				return TupleV{PtrV{}, BoolV{B.False}}
			}
			neg, mag := x.mkBigFromSigned(B.BigInt(v))
			x.writeBig(c.Args[0], neg, BufContent{Mag: mag}, false)
			return TupleV{c.Args[0], BoolV{B.True}}
		}
		if s.Atom == nil {
			x.Unsupported("big.Int.SetString on a content string")
		}
		// An atom that parses as a finite decimal is an integer literal iff its exponent is 0
		// and it is in plain notation; for strings produced by Text('f') that is exponent >= 0.
		ok := x.decIsIntLiteral(s.Atom)
		if x.Branch(ok) {
			neg, mag := x.decAtomParts(s.Atom)
			x.linkMag(mag)
			x.writeBig(c.Args[0], B.And(neg, B.Not(B.Eq(mag, B.RealInt(0)))), BufContent{Mag: B.Floor(mag)}, false)
			return TupleV{c.Args[0], BoolV{B.True}}
		}
		return TupleV{PtrV{}, BoolV{B.False}}
	}
	p.Intr["(*math/big.Int).String"] = func(x *Exec, c *CallCtx) Value {
		a := x.bigSigned(x.loadBig(c.Args[0]))
		return x.intToStr(a)
	}
	p.Intr["(*math/big.Int).IsInt64"] = func(x *Exec, c *CallCtx) Value {
		B := x.B
		a := x.bigSigned(x.loadBig(c.Args[0]))
		return BoolV{B.And(B.Le(B.BigInt(minI64), a), B.Le(a, B.BigInt(maxI64)))}
	}
	p.Intr["(*math/big.Int).Int64"] = func(x *Exec, c *CallCtx) Value {
		a := x.bigSigned(x.loadBig(c.Args[0]))
		return IntV{x.B.Wrap(a, 64, true)}
	}
	p.Intr["(*math/big.Int).Bit"] = func(x *Exec, c *CallCtx) Value {
		B := x.B
		m := x.bufMag(x.loadBig(c.Args[0]))
		i, ok := c.Args[1].(IntV).T.ConstInt64()
		if !ok || i < 0 || i > 512 {
			x.Unsupported("big.Int.Bit with a symbolic or large index")
		}
		return IntV{B.Mod(B.Div(m, B.BigInt(new(big.Int).Lsh(big.NewInt(1), uint(i)))), B.Int(2))}
	}
	p.Intr["(*math/big.Int).Abs"] = func(x *Exec, c *CallCtx) Value {
		a := x.loadBig(c.Args[1])
		x.writeBig(c.Args[0], x.B.False, x.bufContent(a), false)
		return c.Args[0]
	}
	p.Intr["(*math/big.Int).SetInt64"] = func(x *Exec, c *CallCtx) Value {
		neg, mag := x.mkBigFromSigned(c.Args[1].(IntV).T)
		x.writeBig(c.Args[0], neg, BufContent{Mag: mag}, false)
		return c.Args[0]
	}
	p.Intr["(*math/big.Int).SetUint64"] = p.Intr["(*math/big.Int).SetInt64"]
	p.Intr["(*math/big.Int).IsUint64"] = func(x *Exec, c *CallCtx) Value {
		B := x.B
		a := x.bigSigned(x.loadBig(c.Args[0]))
		_, hi := smt.TypeRange(64, false)
		return BoolV{B.And(B.Le(B.Int(0), a), B.Le(a, B.BigInt(hi)))}
	}
	p.Intr["(*math/big.Int).Uint64"] = func(x *Exec, c *CallCtx) Value {
		return IntV{x.B.Wrap(x.bufMag(x.loadBig(c.Args[0])), 64, false)}
	}
	p.Intr["(*math/big.Int).CmpAbs"] = func(x *Exec, c *CallCtx) Value {
		B := x.B
		a, b := x.bufMag(x.loadBig(c.Args[0])), x.bufMag(x.loadBig(c.Args[1]))
		return IntV{B.Ite(B.Lt(a, b), B.Int(-1), B.Ite(B.Eq(a, b), B.Int(0), B.Int(1)))}
	}
	p.Intr["(*math/big.Int).Rem"] = func(x *Exec, c *CallCtx) Value {
		B := x.B
		a := x.loadBig(c.Args[1])
		b := x.loadBig(c.Args[2])
		if x.Branch(B.Eq(x.bufMag(b), B.Int(0))) {
			panic(goPanic{Msg: "division by zero"})
		}
		mag := B.Mod(x.bufMag(a), x.bufMag(b))
		x.writeBig(c.Args[0], B.And(a.Neg, B.Not(B.Eq(mag, B.Int(0)))), BufContent{Mag: mag}, false)
		return c.Args[0]
	}
	p.Intr["(*math/big.Int).BitLen"] = func(x *Exec, c *CallCtx) Value {
		x.Unsupported("big.Int.BitLen")
		return nil
	}
	registerSdkInt(p)
}

var (
	minI64 = new(big.Int).Neg(new(big.Int).Lsh(big.NewInt(1), 63))
	maxI64 = new(big.Int).Sub(new(big.Int).Lsh(big.NewInt(1), 63), big.NewInt(1))
)

// pow10Int is 10^e as an Int term for e >= 1 (1 for e <= 0), table over e's interval.
func (x *Exec) pow10Int(e *smt.Term) *smt.Term {
	B := x.B
	if c := x.tryConst(e); c != e {
		if cv, ok := c.ConstInt64(); ok {
			if cv <= 0 {
				return B.Int(1)
			}
			return B.BigInt(pow10(int(cv)))
		}
	}
	lo, hi := int64(1), int64(150)
	if e.Hi != nil && e.Hi.IsInt64() && e.Hi.Int64() < hi {
		hi = e.Hi.Int64()
	}
	if e.Lo != nil && e.Lo.IsInt64() && e.Lo.Int64() > lo {
		lo = e.Lo.Int64()
	}
	if hi < 1 {
		return B.Int(1)
	}
	t := &pow10Marker{}
	_ = t
	r := B.BigInt(pow10(int(hi)))
	for k := hi - 1; k >= lo; k-- {
		r = B.Ite(B.Eq(e, B.Int(k)), B.BigInt(pow10(int(k))), r)
	}
	if lo <= 1 && (e.Lo == nil || e.Lo.Sign() <= 0) {
		r = B.Ite(B.Le(e, B.Int(0)), B.Int(1), r)
	}
	x.pow10Of[r.ID] = e
	return r
}

type pow10Marker struct{}

// mulDeferred recognises coeff(V,E) * 10^E = V (E > 0 on this path), the SdkIntTrim pattern.
func (x *Exec) mulDeferred(a, b BigV) (*smt.Term, bool) {
	if a.Buf == nil || b.Buf == nil {
		return nil, false
	}
	ca := a.Buf.Val.(BufContent)
	cb := b.Buf.Val.(BufContent)
	if ca.V == nil || cb.Mag == nil {
		return nil, false
	}
	if e, ok := x.pow10Of[cb.Mag.ID]; ok && e == ca.E {
		// value is an integer here because E > 0 and the coefficient is integral
		x.linkMag(ca.V)
		return x.B.Floor(ca.V), true
	}
	if c, ok := cb.Mag.ConstInt64(); ok {
		if ec, ok2 := ca.E.ConstInt64(); ok2 && ec > 0 && ec < 19 && pow10(int(ec)).Int64() == c {
			x.linkMag(ca.V)
			return x.B.Floor(ca.V), true
		}
	}
	return nil, false
}

// quoDeferred recognises coeff(V,E) quo 10^-E = floor(V) (E < 0 on this path).
func (x *Exec) quoDeferred(a, b BigV) (*smt.Term, bool) {
	if a.Buf == nil || b.Buf == nil {
		return nil, false
	}
	ca := a.Buf.Val.(BufContent)
	cb := b.Buf.Val.(BufContent)
	if ca.V == nil || cb.Mag == nil {
		return nil, false
	}
	if e, ok := x.pow10Of[cb.Mag.ID]; ok {
		// e must be -E
		if e == x.B.Neg(ca.E) {
			x.linkMag(ca.V)
			return x.B.Floor(ca.V), true
		}
	}
	if c, ok := cb.Mag.ConstInt64(); ok {
		if ec, ok2 := ca.E.ConstInt64(); ok2 && ec < 0 && ec > -19 && pow10(int(-ec)).Int64() == c {
			x.linkMag(ca.V)
			return x.B.Floor(ca.V), true
		}
	}
	return nil, false
}

// ---- decimal strings

// decAtom returns the uninterpreted parse of an opaque decimal string.
func (x *Exec) decAtomOK(s *smt.Term) *smt.Term   { return x.B.App("dec_ok", smt.SBool, s) }
func (x *Exec) decAtomForm(s *smt.Term) *smt.Term { return x.B.App("dec_form", smt.SInt, s) }
func (x *Exec) decAtomExp(s *smt.Term) *smt.Term {
	e := x.B.App("dec_exp", smt.SInt, s)
	if !x.lenAxiom[e.ID] {
		x.lenAxiom[e.ID] = true
		x.setBounds(e, x.expLo(), x.expHi(), "decimal string exponent within bound")
	}
	return e
}

// decAtomParts: sign and magnitude of an opaque decimal string. The magnitude is defined
// from an integer coefficient and the exponent, |v| = dec_coeff(s) * 10^dec_exp(s), so that
// integrality questions stay in integer arithmetic.
func (x *Exec) decAtomParts(s *smt.Term) (*smt.Term, *smt.Term) {
	B := x.B
	if x.Cfg.Bound("dec_coeff_form", 0) == 0 {
		// default: the magnitude is an uninterpreted real; it is tied to an integer
		// coefficient only where integrality matters (linkMag)
		m := B.App("dec_mag", smt.SReal, s)
		if !x.lenAxiom[m.ID] {
			x.lenAxiom[m.ID] = true
			x.Assume(B.Ge(m, B.RealInt(0)), "decimal magnitude >= 0")
			m.Lo = big.NewInt(0)
		}
		return B.App("dec_neg", smt.SBool, s), m
	}
	c := B.App("dec_coeff", smt.SInt, s)
	if !x.lenAxiom[c.ID] {
		x.lenAxiom[c.ID] = true
		x.Assume(B.Ge(c, B.Int(0)), "decimal coefficient >= 0")
		if c.Lo == nil {
			c.Lo = big.NewInt(0)
		}
	}
	m := B.Mul(B.ToReal(c), x.p10(x.decAtomExp(s)))
	return B.App("dec_neg", smt.SBool, s), m
}
func (x *Exec) decIsIntLiteral(s *smt.Term) *smt.Term {
	B := x.B
	return B.And(x.decAtomOK(s), B.Eq(x.decAtomForm(s), B.Int(0)), B.App("dec_plain", smt.SBool, s), B.Eq(x.decAtomExp(s), B.Int(0)))
}

func (x *Exec) apdNewFromString(s StrV) Value {
	B := x.B
	mkErr := func() Value {
		return TupleV{PtrV{}, IntV{B.Int(0)}, x.newErr("apd-parse", "could not parse")}
	}
	if s.IsConst {
		d, ok := parseDecimalConst(s.S)
		if !ok {
			return mkErr()
		}
		mag := new(big.Rat).SetInt(d.coeff)
		if d.exp >= 0 {
			mag.Mul(mag, new(big.Rat).SetInt(pow10(d.exp)))
		} else {
			mag.Quo(mag, new(big.Rat).SetInt(pow10(-d.exp)))
		}
		dv := x.mkDec(B.Int(int64(d.form)), B.Bool(d.neg), B.Int(int64(d.exp)), B.RatC(mag))
		return TupleV{PtrV{Obj: x.newObj(dv, "apd.NewFromString")}, IntV{B.Int(0)}, IfaceV{}}
	}
	if s.Atom == nil {
		x.Unsupported("apd.NewFromString on a content string")
	}
	if !x.Branch(x.decAtomOK(s.Atom)) {
		return mkErr()
	}
	form := x.decAtomForm(s.Atom)
	if !x.lenAxiom[form.ID] {
		x.lenAxiom[form.ID] = true
		x.setBounds(form, 0, 3, "decimal form")
	}
	neg, mag := x.decAtomParts(s.Atom)
	e := x.decAtomExp(s.Atom)
	dv := x.mkDec(form, neg, e, mag)
	return TupleV{PtrV{Obj: x.newObj(dv, "apd.NewFromString")}, IntV{B.Int(0)}, IfaceV{}}
}

// decText is Decimal.Text: a deterministic function of the decimal, with the parse-back
// axioms instantiated for this application. Only 'f' is plain notation.
func (x *Exec) decText(d decParts, verb byte) Value {
	B := x.B
	if c, ok := d.Form.ConstInt64(); ok && c != 0 {
		return StrV{Atom: B.App("dectext_special_f", smt.SStr, d.Form, d.Neg)}
	} else if !ok {
		if !x.Branch(B.Eq(d.Form, B.Int(0))) {
			return StrV{Atom: B.App("dectext_special_f", smt.SStr, d.Form, d.Neg)}
		}
	}
	name := fmt.Sprintf("dec_text_%c", verb)
	s := B.App(name, smt.SStr, d.Neg, d.Mag, d.Exp)
	if !x.lenAxiom[s.ID] {
		x.lenAxiom[s.ID] = true
		neg, mag := x.decAtomParts(s)
		ax := []*smt.Term{x.decAtomOK(s), B.Eq(x.decAtomForm(s), B.Int(0)), B.Eq(neg, d.Neg), B.Eq(mag, d.Mag),
			B.Not(B.Eq(s, B.StrConst("")))}
		pe := B.App("dec_exp", smt.SInt, s)
		if verb == 'f' {
			ax = append(ax, B.Eq(pe, B.Ite(B.Lt(d.Exp, B.Int(0)), d.Exp, B.Int(0))), B.App("dec_plain", smt.SBool, s))
		} else {
			// scientific notation possible: exponent preserved, not guaranteed plain
			ax = append(ax, B.Eq(pe, d.Exp))
		}
		x.Assume(B.And(ax...), "Text/parse round trip")
	}
	return StrV{Atom: s}
}

// intToStr renders an integer term as an opaque decimal string with parse-back axioms.
func (x *Exec) intToStr(t *smt.Term) Value {
	B := x.B
	if c, ok := t.ConstInt64(); ok {
		return StrV{IsConst: true, S: fmt.Sprintf("%d", c)}
	}
	if t.Op == "ci" {
		return StrV{IsConst: true, S: t.Int.String()}
	}
	s := B.App("int_text", smt.SStr, t)
	if !x.lenAxiom[s.ID] {
		x.lenAxiom[s.ID] = true
		neg, mag := x.decAtomParts(s)
		abs := B.Ite(B.Lt(t, B.Int(0)), B.Neg(t), t)
		x.Assume(B.And(x.decAtomOK(s), B.Eq(x.decAtomForm(s), B.Int(0)), B.Eq(neg, B.Lt(t, B.Int(0))),
			B.Eq(mag, B.ToReal(abs)), B.Eq(B.App("dec_exp", smt.SInt, s), B.Int(0)), B.App("dec_plain", smt.SBool, s),
			B.Not(B.Eq(s, B.StrConst("")))), "int text/parse round trip")
	}
	return StrV{Atom: s}
}

type constDec struct {
	form  int
	neg   bool
	coeff *big.Int
	exp   int
}

// parseDecimalConst mirrors apd's setString for concrete strings.
func parseDecimalConst(s string) (constDec, bool) {
	var d constDec
	d.coeff = new(big.Int)
	if strings.HasPrefix(s, "-") {
		d.neg = true
		s = s[1:]
	} else if strings.HasPrefix(s, "+") {
		s = s[1:]
	}
	s = strings.ToLower(s)
	if strings.HasPrefix(s, "-") || strings.HasPrefix(s, "+") {
		return d, false
	}
	switch s {
	case "infinity", "inf":
		d.form = 1
		return d, true
	}
	if strings.HasPrefix(s, "nan") {
		rest := s[3:]
		for _, r := range rest {
			if r < '0' || r > '9' {
				return d, false
			}
		}
		d.form = 3
		return d, true
	}
	if strings.HasPrefix(s, "snan") {
		d.form = 2
		return d, true
	}
	exp := 0
	if i := strings.IndexByte(s, 'e'); i >= 0 {
		var e int64
		es := s[i+1:]
		if es == "" {
			return d, false
		}
		if _, err := fmt.Sscanf(es, "%d", &e); err != nil {
			return d, false
		}
		for k, r := range es {
			if !(r >= '0' && r <= '9') && !(k == 0 && (r == '-' || r == '+')) {
				return d, false
			}
		}
		exp += int(e)
		s = s[:i]
	}
	if i := strings.IndexByte(s, '.'); i >= 0 {
		exp -= len(s) - i - 1
		s = s[:i] + s[i+1:]
	}
	if _, ok := d.coeff.SetString(s, 10); !ok {
		return d, false
	}
	if d.coeff.Sign() < 0 {
		return d, false
	}
	d.exp = exp
	return d, true
}

// nondetApd is an arbitrary finite apd.Decimal within the stated digit/exponent bounds:
// an integer coefficient below 10^digits and an exponent in [exp_lo, exp_hi].
func (x *Exec) nondetApd(label string) Value {
	B := x.B
	e := x.boundedVar("nd_"+label+".exp", big.NewInt(x.expLo()), big.NewInt(x.expHi()), "exponent bound")
	neg := B.Var("nd_"+label+".neg", smt.SBool)
	hi := new(big.Int).Sub(pow10(x.digits()), big.NewInt(1))
	coeff := x.boundedVar("nd_"+label+".coeff", big.NewInt(0), hi, "coefficient bound")
	mag := B.Mul(B.ToReal(coeff), x.p10(e))
	x.addNondet(label, "dec", neg, coeff, e)
	buf := x.newObj(BufContent{Mag: coeff, V: mag, E: e}, "decbuf")
	return StructV{F: []Value{IntV{B.Int(0)}, BoolV{neg}, IntV{e}, BigV{Neg: B.False, Buf: buf}}}
}

func (x *Exec) zzverifDec(name string, c *CallCtx) (Value, bool) {
	B := x.B
	a := c.Args
	real := func(v Value) *smt.Term {
		if iv, ok := v.(IfaceV); ok {
			v = iv.V
		}
		switch u := v.(type) {
		case RealV:
			return u.T
		case IntV:
			return B.ToReal(u.T)
		case SdkIntV:
			return B.ToReal(u.T)
		case StructV:
			// math.Dec{dec apd.Decimal} or apd.Decimal
			if len(u.F) == 1 {
				if in, ok := u.F[0].(StructV); ok {
					return x.decOf(in).signed(B)
				}
			}
			return x.decOf(u).signed(B)
		case PtrV:
			lv := x.load(u)
			if bv, ok := lv.(BigV); ok {
				return B.ToReal(x.bigSigned(bv))
			}
			if sv, ok := lv.(StructV); ok {
				if len(sv.F) == 1 {
					if in, ok := sv.F[0].(StructV); ok {
						return x.decOf(in).signed(B)
					}
				}
				return x.decOf(sv).signed(B)
			}
		}
		x.Unsupported("zzverif: no rational value for %T", v)
		return nil
	}
	switch name {
	case "QOf":
		return RealV{real(a[0])}, true
	case "QInt":
		return RealV{B.ToReal(a[0].(IntV).T)}, true
	case "QAdd":
		return RealV{B.Add(real(a[0]), real(a[1]))}, true
	case "QSub":
		return RealV{B.Sub(real(a[0]), real(a[1]))}, true
	case "QMul":
		p, q := real(a[0]), real(a[1])
		if x.Cfg.Bound("mul_abstract", 0) == 1 && !p.IsConst() && !q.IsConst() {
			// the same uninterpreted product the Mul summary uses, on magnitudes, with the sign
			// computed separately: obligations then hold for every value the product may take
			zero := B.RealInt(0)
			pa := B.Ite(B.Lt(p, zero), B.Neg(p), p)
			qa := B.Ite(B.Lt(q, zero), B.Neg(q), q)
			m := B.App("realmul", smt.SReal, pa, qa)
			if !x.lenAxiom[m.ID] {
				x.lenAxiom[m.ID] = true
				x.Assume(B.And(B.Ge(m, zero), B.Eq(B.Eq(m, zero), B.Or(B.Eq(pa, zero), B.Eq(qa, zero)))), "abstract product (oracle side)")
			}
			return RealV{B.Ite(B.Neq(B.Lt(p, zero), B.Lt(q, zero)), B.Neg(m), m)}, true
		}
		return RealV{B.Mul(p, q)}, true
	case "QDiv":
		p, q := real(a[0]), real(a[1])
		if x.Cfg.Bound("mul_abstract", 0) == 1 && !q.IsConst() {
			zero := B.RealInt(0)
			pa := B.Ite(B.Lt(p, zero), B.Neg(p), p)
			qa := B.Ite(B.Lt(q, zero), B.Neg(q), q)
			m := B.App("realdiv", smt.SReal, pa, qa)
			return RealV{B.Ite(B.Eq(p, zero), zero, B.Ite(B.Neq(B.Lt(p, zero), B.Lt(q, zero)), B.Neg(m), m))}, true
		}
		return RealV{B.RDiv(p, q)}, true
	case "QNeg":
		return RealV{B.Neg(real(a[0]))}, true
	case "QAbs":
		r := real(a[0])
		return RealV{B.Ite(B.Lt(r, B.RealInt(0)), B.Neg(r), r)}, true
	case "QFloor":
		x.linkMag(real(a[0]))
		return RealV{B.ToReal(B.Floor(real(a[0])))}, true
	case "QTrunc":
		r := real(a[0])
		x.linkMag(r)
		return RealV{B.Ite(B.Lt(r, B.RealInt(0)), B.Neg(B.ToReal(B.Floor(B.Neg(r)))), B.ToReal(B.Floor(r)))}, true
	case "QPow10":
		return RealV{x.p10(a[0].(IntV).T)}, true
	case "QEq":
		return BoolV{B.Eq(real(a[0]), real(a[1]))}, true
	case "QLt":
		return BoolV{B.Lt(real(a[0]), real(a[1]))}, true
	case "QLe":
		return BoolV{B.Le(real(a[0]), real(a[1]))}, true
	case "QIsInt":
		x.linkMag(real(a[0]))
		return BoolV{B.IsInt(real(a[0]))}, true
	case "QParse":
		// value of a decimal string (0 if it does not parse)
		s := a[0].(StrV)
		return RealV{x.decStringValue(s)}, true
	case "DecStrOK":
		// s parses as a finite, non-negative decimal with at most `places` decimal places
		s := a[0].(StrV)
		return BoolV{x.decStringOK(s, a[1].(IntV).T)}, true
	case "DecExp":
		v := a[0]
		if iv, ok := v.(IfaceV); ok {
			v = iv.V
		}
		sv := v.(StructV)
		if len(sv.F) == 1 {
			sv = sv.F[0].(StructV)
		}
		return IntV{x.decOf(sv).Exp}, true
	case "DecNegFlag":
		v := a[0]
		if iv, ok := v.(IfaceV); ok {
			v = iv.V
		}
		sv := v.(StructV)
		if len(sv.F) == 1 {
			sv = sv.F[0].(StructV)
		}
		return BoolV{x.decOf(sv).Neg}, true
	case "DecPlain":
		s := a[0].(StrV)
		if s.IsConst {
			return BoolV{B.Bool(!strings.ContainsAny(s.S, "eE"))}, true
		}
		return BoolV{B.App("dec_plain", smt.SBool, s.Atom)}, true
	}
	return nil, false
}

func (x *Exec) decStringValue(s StrV) *smt.Term {
	B := x.B
	if s.IsConst {
		str := s.S
		if str == "" {
			str = "0"
		}
		d, ok := parseDecimalConst(str)
		if !ok || d.form != 0 {
			return B.RealInt(0)
		}
		mag := new(big.Rat).SetInt(d.coeff)
		if d.exp >= 0 {
			mag.Mul(mag, new(big.Rat).SetInt(pow10(d.exp)))
		} else {
			mag.Quo(mag, new(big.Rat).SetInt(pow10(-d.exp)))
		}
		if d.neg {
			mag.Neg(mag)
		}
		return B.RatC(mag)
	}
	if s.Atom == nil {
		x.Unsupported("decimal value of a content string")
	}
	neg, mag := x.decAtomParts(s.Atom)
	// the empty string counts as 0 (NewDecFromString maps "" to "0")
	v := B.Ite(neg, B.Neg(mag), mag)
	return B.Ite(B.Eq(s.Atom, B.StrConst("")), B.RealInt(0), v)
}

func (x *Exec) decStringOK(s StrV, places *smt.Term) *smt.Term {
	B := x.B
	if s.IsConst {
		str := s.S
		if str == "" {
			str = "0"
		}
		d, ok := parseDecimalConst(str)
		if !ok || d.form != 0 || (d.neg && d.coeff.Sign() != 0) {
			return B.False
		}
		return B.Le(B.Int(int64(-d.exp)), places)
	}
	neg, mag := x.decAtomParts(s.Atom)
	e := x.decAtomExp(s.Atom)
	ok := B.And(x.decAtomOK(s.Atom), B.Eq(x.decAtomForm(s.Atom), B.Int(0)),
		B.Or(B.Not(neg), B.Eq(mag, B.RealInt(0))), B.Le(B.Neg(e), places))
	return B.Or(B.Eq(s.Atom, B.StrConst("")), ok)
}

var _ = types.Typ

// linkMag ties every uninterpreted decimal magnitude occurring in t to its integer
// coefficient: dec_mag(s) = dec_coeff(s) * 10^dec_exp(s). Called where integrality,
// truncation or digit counts are about to be decided.
func (x *Exec) linkMag(t *smt.Term) {
	if t == nil || x.Cfg.Bound("dec_coeff_form", 0) == 1 {
		return
	}
	seen := map[int]bool{}
	var walk func(u *smt.Term)
	walk = func(u *smt.Term) {
		if seen[u.ID] {
			return
		}
		seen[u.ID] = true
		if u.Op == "app" && u.Name == "dec_mag" && !x.linked[u.ID] {
			x.linked[u.ID] = true
			s := u.Args[0]
			c := x.B.App("dec_coeff", smt.SInt, s)
			x.Assume(x.B.And(x.B.Ge(c, x.B.Int(0)), x.B.Eq(u, x.B.Mul(x.B.ToReal(c), x.p10(x.decAtomExp(s))))), "decimal magnitude = coefficient * 10^exponent")
		}
		for _, a := range u.Args {
			walk(a)
		}
	}
	walk(t)
}
