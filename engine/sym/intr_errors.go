package sym

import (
	"fmt"
	"go/types"

	"verif/engine/smt"
)

func asErr(v Value) (ErrV, bool) {
	switch u := v.(type) {
	case ErrV:
		return u, true
	case IfaceV:
		if e, ok := u.V.(ErrV); ok {
			return e, true
		}
	}
	return ErrV{}, false
}

func registerErrors(p *Program) {
	wrapM := func(x *Exec, c *CallCtx) Value {
		e, ok := asErr(c.Args[0])
		if !ok {
			if n, _ := isNilValue(c.Args[0]); n {
				panic(goPanic{Msg: "Wrap on nil *Error"})
			}
			x.Unsupported("Wrap receiver %T", c.Args[0])
		}
		return x.wrapErr(e, "")
	}
	for _, pkg := range []string{"cosmossdk.io/errors", "github.com/cosmos/cosmos-sdk/types/errors"} {
		p.Intr["(*"+pkg+".Error).Wrap"] = wrapM
		p.Intr["(*"+pkg+".Error).Wrapf"] = wrapM
		p.Intr["(*"+pkg+".Error).Error"] = func(x *Exec, c *CallCtx) Value {
			e, _ := asErr(c.Args[0])
			return x.errMethod(e, "Error", nil)
		}
		p.Intr["(*"+pkg+".Error).Is"] = func(x *Exec, c *CallCtx) Value {
			e, _ := asErr(c.Args[0])
			return x.errMethod(e, "Is", c.Args[1:])
		}
		wrapF := func(x *Exec, c *CallCtx) Value {
			if n, _ := isNilValue(c.Args[0]); n {
				return IfaceV{}
			}
			e, ok := asErr(c.Args[0])
			if !ok {
				x.Unsupported("errors.Wrap of %T", c.Args[0])
			}
			return x.wrapErr(e, "")
		}
		p.Intr[pkg+".Wrap"] = wrapF
		p.Intr[pkg+".Wrapf"] = wrapF
		p.Intr[pkg+".Register"] = func(x *Exec, c *CallCtx) Value {
			return x.newErr(fmt.Sprintf("registered:%s", x.describe(c.Args[0])), "")
		}
		p.Intr[pkg+".IsOf"] = func(x *Exec, c *CallCtx) Value {
			x.Unsupported("errors.IsOf")
			return nil
		}
	}
	is := func(x *Exec, c *CallCtx) Value {
		a, oka := asErr(c.Args[0])
		b, okb := asErr(c.Args[1])
		if !oka || !okb {
			an, _ := isNilValue(c.Args[0])
			bn, _ := isNilValue(c.Args[1])
			return BoolV{x.B.Bool(an && bn)}
		}
		return BoolV{x.B.Bool(a.ID == b.ID || (a.Root != "" && a.Root == b.Root))}
	}
	p.Intr["errors.Is"] = is
	p.Intr["cosmossdk.io/errors.Is"] = is
	p.Intr["errors.New"] = func(x *Exec, c *CallCtx) Value { return x.newErr("", x.describe(c.Args[0])) }
	p.Intr["github.com/cosmos/cosmos-sdk/orm/types/ormerrors.IsNotFound"] = func(x *Exec, c *CallCtx) Value {
		e, ok := asErr(c.Args[0])
		return BoolV{x.B.Bool(ok && e.Root == "github.com/cosmos/cosmos-sdk/orm/types/ormerrors.NotFound")}
	}
	p.Intr["google.golang.org/grpc/status.Errorf"] = func(x *Exec, c *CallCtx) Value { return x.newErr("grpc-status", "") }
	p.Intr["google.golang.org/grpc/status.Error"] = func(x *Exec, c *CallCtx) Value { return x.newErr("grpc-status", "") }
}

func registerFmt(p *Program) {
	p.Intr["fmt.Errorf"] = func(x *Exec, c *CallCtx) Value {
		// %w keeps the root of the wrapped error
		if s, ok := c.Args[0].(StrV); ok && s.IsConst {
			if sl, ok := c.Args[1].(SliceV); ok {
				for _, a := range x.sliceElems(sl) {
					if e, ok := asErr(a); ok {
						if containsVerbW(s.S) {
							return x.wrapErr(e, s.S)
						}
					}
				}
			}
			return x.newErr("", s.S)
		}
		return x.newErr("", "")
	}
	p.Intr["fmt.Sprintf"] = func(x *Exec, c *CallCtx) Value { return x.sprintf(c) }
	p.Intr["fmt.Sprint"] = func(x *Exec, c *CallCtx) Value {
		return StrV{Atom: x.B.Fresh("sprint", smt.SStr)}
	}
	p.Intr["fmt.Println"] = func(x *Exec, c *CallCtx) Value {
		return TupleV{IntV{x.B.Int(0)}, IfaceV{}}
	}
	p.Intr["fmt.Printf"] = p.Intr["fmt.Println"]
}

func containsVerbW(s string) bool {
	for i := 0; i+1 < len(s); i++ {
		if s[i] == '%' && s[i+1] == 'w' {
			return true
		}
	}
	return false
}

// sprintf: content-level for %s %d %02d %03d %v on constants/content strings and integers;
// anything involving an opaque atom becomes sprintf_<fmt>(args...) (deterministic, injective
// in nothing).
func (x *Exec) sprintf(c *CallCtx) Value {
	fs, ok := c.Args[0].(StrV)
	if !ok || !fs.IsConst {
		return StrV{Atom: x.B.Fresh("sprintf", smt.SStr)}
	}
	var args []Value
	if sl, ok := c.Args[1].(SliceV); ok {
		args = x.sliceElems(sl)
	}
	// try content-level
	out := StrV{IsConst: true, S: ""}
	f := fs.S
	ai := 0
	okContent := true
	var atomArgs []*smt.Term
	for i := 0; i < len(f) && okContent; i++ {
		if f[i] != '%' {
			out = x.stringConcat(out, StrV{IsConst: true, S: string(f[i])})
			continue
		}
		i++
		if i >= len(f) {
			okContent = false
			break
		}
		if f[i] == '%' {
			out = x.stringConcat(out, StrV{IsConst: true, S: "%"})
			continue
		}
		pad := 0
		zero := false
		for i < len(f) && f[i] >= '0' && f[i] <= '9' {
			if f[i] == '0' && pad == 0 && !zero {
				zero = true
			} else {
				pad = pad*10 + int(f[i]-'0')
			}
			i++
		}
		if i >= len(f) || ai >= len(args) {
			okContent = false
			break
		}
		arg := args[ai]
		ai++
		if iv, ok := arg.(IfaceV); ok {
			arg = iv.V
		}
		switch f[i] {
		case 's', 'v', 'd', 'q':
			switch u := arg.(type) {
			case StrV:
				if u.Atom != nil {
					okContent = false
					break
				}
				if f[i] == 'q' {
					okContent = false
					break
				}
				out = x.stringConcat(out, u)
			case IntV:
				if f[i] == 's' {
					okContent = false
					break
				}
				out = x.stringConcat(out, x.formatUint(u.T, pad, zero))
			default:
				okContent = false
			}
		default:
			okContent = false
		}
	}
	if okContent && out.Atom == nil {
		return out
	}
	// opaque: uninterpreted function of the atom/int arguments
	for _, a := range args {
		if iv, ok := a.(IfaceV); ok {
			a = iv.V
		}
		switch u := a.(type) {
		case StrV:
			if t := x.strAtomTerm(u); t != nil {
				atomArgs = append(atomArgs, t)
			}
		case IntV:
			atomArgs = append(atomArgs, u.T)
		}
	}
	name := "sprintf_" + fs.S + fmt.Sprintf("_%d", len(atomArgs))
	for _, a := range atomArgs {
		name += "_" + a.Sort.String()
	}
	return StrV{Atom: x.B.App(name, smt.SStr, atomArgs...)}
}

// formatUint renders a non-negative integer in decimal with optional zero padding:
// the digit count is a case split (one path per digit count).
func (x *Exec) formatUint(t *smt.Term, pad int, zero bool) StrV {
	B := x.B
	if c, ok := t.ConstInt64(); ok {
		f := "%d"
		if pad > 0 {
			if zero {
				f = fmt.Sprintf("%%0%dd", pad)
			} else {
				f = fmt.Sprintf("%%%dd", pad)
			}
		}
		return StrV{IsConst: true, S: fmt.Sprintf(f, c)}
	}
	if !(t.Lo != nil && t.Lo.Sign() >= 0) && x.Branch(B.Lt(t, B.Int(0))) {
		x.Unsupported("formatting a negative symbolic integer")
	}
	// zero padding at least as wide as the value can get: fixed width, no case split
	if zero && pad > 0 && pad <= 18 && t.Lo != nil && t.Lo.Sign() >= 0 && t.Hi != nil && t.Hi.Cmp(pow10(pad)) < 0 {
		bs := make([]*smt.Term, pad)
		for i := 0; i < pad; i++ {
			bs[i] = B.Add(B.Mod(B.Div(t, B.BigInt(pow10(pad-1-i))), B.Int(10)), B.Int('0'))
		}
		return x.normStr(bs)
	}
	// digit count k: 10^(k-1) <= t < 10^k
	maxDigits := 20
	k := 1
	pow := int64(10)
	for ; k < maxDigits; k++ {
		var lim *smt.Term
		if k <= 18 {
			lim = B.Int(pow)
		} else {
			lim = B.BigInt(pow10(k))
		}
		if t.Hi != nil && t.Hi.Cmp(pow10(k)) < 0 {
			break // the interval decides: at most k digits
		}
		if !(t.Lo != nil && t.Lo.Cmp(pow10(k)) >= 0) && x.Branch(B.Lt(t, lim)) {
			break
		}
		if k < 18 {
			pow *= 10
		}
	}
	width := k
	if pad > width {
		width = pad
	}
	bs := make([]*smt.Term, width)
	for i := 0; i < width; i++ {
		pos := width - 1 - i // power of ten of this digit
		if pos >= k {
			if zero {
				bs[i] = B.Int('0')
			} else {
				bs[i] = B.Int(' ')
			}
			continue
		}
		d := B.Mod(B.Div(t, B.BigInt(pow10(pos))), B.Int(10))
		bs[i] = B.Add(d, B.Int('0'))
	}
	return x.normStr(bs)
}

var _ = types.Typ
