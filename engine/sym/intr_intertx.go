package sym

import (
	"fmt"
	"go/types"

	"golang.org/x/tools/go/ssa"

	"verif/engine/smt"
)

// RecorderModel is a recording stub for a keeper interface: every call is logged with its
// arguments and returns arbitrary values of the declared result types (booleans and
// errors symbolic / forked).
type RecorderModel struct {
	name string
	env  *Env
	uf   bool // results are uninterpreted functions of the (scalar) arguments
}

func (m *RecorderModel) ModelName() string { return "Recorder:" + m.name }

func (m *RecorderModel) Invoke(x *Exec, method string, args []Value, c *ssa.CallCommon) Value {
	x.Env.Calls = append(x.Env.Calls, RecordedCall{Name: m.name + "." + method, Args: args})
	n := len(x.Env.Calls)
	record := func(v Value) Value {
		switch u := v.(type) {
		case nil:
		case TupleV:
			x.Env.Calls[n-1].Rets = append([]Value{}, u...)
		default:
			x.Env.Calls[n-1].Rets = []Value{v}
		}
		return v
	}
	sig := c.Method.Type().(*types.Signature)
	res := sig.Results()
	mk := func(i int) Value {
		t := res.At(i).Type()
		label := fmt.Sprintf("%s.%s#%d.ret%d", m.name, method, n, i)
		if m.uf && !(types.IsInterface(t) && typeName(t) == "error") {
			var ts []*smt.Term
			for _, a := range args {
				switch u := unwrapIface(a).(type) {
				case IntV:
					ts = append(ts, u.T)
				case BoolV:
					ts = append(ts, u.T)
				case StrV:
					ts = append(ts, x.scalarTerm(u))
				case SliceV:
					ts = append(ts, x.bytesTerm(u))
				}
			}
			name := fmt.Sprintf("stub_%s_%s_%d", m.name, method, i)
			for _, a := range ts {
				name += "_" + a.Sort.String()
			}
			switch u := t.Underlying().(type) {
			case *types.Slice:
				r := x.B.App(name, smt.SStr, ts...)
				if m.name == "hasher" && method == "CreateID" {
					// guarantee of the CreateID kernel (C16 an id is never empty): the id hasher
					// is every function with non-empty results
					x.Assume(x.B.And(x.B.Gt(x.atomLen(r), x.B.Int(0)), x.B.Not(x.B.Eq(r, x.B.StrConst("")))), "data id not empty (CreateID kernel)")
				}
				return SliceV{Atom: r}
			case *types.Basic:
				switch {
				case u.Info()&types.IsString != 0:
					return StrV{Atom: x.B.App(name, smt.SStr, ts...)}
				case u.Info()&types.IsBoolean != 0:
					return BoolV{x.B.App(name, smt.SBool, ts...)}
				case u.Info()&types.IsInteger != 0:
					return IntV{x.B.App(name, smt.SInt, ts...)}
				}
			}
			x.Unsupported("uninterpreted stub result of type %v", t)
		}
		if types.IsInterface(t) && typeName(t) == "error" {
			if x.Choose(2, label+" error?") == 1 {
				x.addNondet(label+".iserr", "choice", x.B.Int(1))
				return x.newErr("stub:"+m.name+"."+method, "")
			}
			return IfaceV{}
		}
		if p, ok := t.Underlying().(*types.Pointer); ok {
			if _, ok := p.Elem().Underlying().(*types.Struct); ok {
				return PtrV{Obj: x.newObj(OpaqueV{Kind: "stub-object", ID: n*10 + i}, label)}
			}
		}
		return x.nondetOfType(label, t, 0)
	}
	switch res.Len() {
	case 0:
		return nil
	case 1:
		return record(mk(0))
	}
	tv := make(TupleV, res.Len())
	for i := range tv {
		tv[i] = mk(i)
	}
	return record(tv)
}

func registerIntertx(p *Program) {
	ica := "github.com/cosmos/ibc-go/v7/modules/apps/27-interchain-accounts/types"
	p.Intr[ica+".NewControllerPortID"] = func(x *Exec, c *CallCtx) Value {
		B := x.B
		owner := c.Args[0].(StrV)
		ot := x.strAtomTerm(owner)
		// ibc-go rejects a blank owner (strings.TrimSpace(owner) == ""); blank = empty here
		if x.Branch(B.Eq(ot, B.StrConst(""))) {
			return TupleV{StrV{IsConst: true}, x.newErr(ica+".ErrInvalidAccountAddress", "owner address cannot be empty")}
		}
		port := B.App("controller_port_id", smt.SStr, ot)
		if !x.lenAxiom[port.ID] {
			x.lenAxiom[port.ID] = true
			// prefix + owner: injective in the owner
			x.Assume(B.Eq(B.App("controller_port_owner", smt.SStr, port), ot), "controller port id is injective in the owner")
		}
		return TupleV{StrV{Atom: port}, IfaceV{}}
	}
	p.Intr["github.com/cosmos/ibc-go/v7/modules/core/24-host.ChannelCapabilityPath"] = func(x *Exec, c *CallCtx) Value {
		a, b := x.strAtomTerm(c.Args[0].(StrV)), x.strAtomTerm(c.Args[1].(StrV))
		return StrV{Atom: x.B.App("channel_capability_path", smt.SStr, a, b)}
	}
	p.Intr["(*github.com/cosmos/cosmos-sdk/codec/types.Any).GetCachedValue"] = func(x *Exec, c *CallCtx) Value {
		pv := c.Args[0].(PtrV)
		if pv.Obj == nil {
			return IfaceV{}
		}
		sv := x.load(pv).(StructV)
		st := c.Fn.Signature.Recv().Type().Underlying().(*types.Pointer).Elem().Underlying().(*types.Struct)
		for i := 0; i < st.NumFields(); i++ {
			if st.Field(i).Name() == "cachedValue" {
				return sv.F[i]
			}
		}
		x.Unsupported("codectypes.Any has no cachedValue field")
		return nil
	}
	p.Intr[ica+".SerializeCosmosTx"] = func(x *Exec, c *CallCtx) Value {
		msgs := x.sliceElems(c.Args[1].(SliceV))
		var ids []*smt.Term
		for _, m := range msgs {
			ids = append(ids, x.B.Int(int64(x.identityOf(m))))
		}
		x.Env.Calls = append(x.Env.Calls, RecordedCall{Name: "SerializeCosmosTx", Args: msgs})
		if x.Choose(2, "SerializeCosmosTx error?") == 1 {
			return TupleV{SliceV{Nil: true}, x.newErr("stub:SerializeCosmosTx", "")}
		}
		name := fmt.Sprintf("serialize_cosmos_tx_%d", len(ids))
		return TupleV{SliceV{Atom: x.B.App(name, smt.SStr, ids...)}, IfaceV{}}
	}
}

// identityOf is the heap identity of a pointer-like value.
func (x *Exec) identityOf(v Value) int {
	v = unwrapIface(v)
	if p, ok := v.(PtrV); ok && p.Obj != nil {
		return p.Obj.ID
	}
	x.Unsupported("identity of %T", v)
	return 0
}

// zzverifStub: recorder-related primitives.
func (x *Exec) zzverifStub(name string, c *CallCtx) (Value, bool) {
	B := x.B
	a := c.Args
	switch name {
	case "Recorder":
		return ModelV{&RecorderModel{name: x.constStr(a[0], "recorder name"), env: x.Env}}, true
	case "UFStub":
		return ModelV{&RecorderModel{name: x.constStr(a[0], "stub name"), env: x.Env, uf: true}}, true
	case "AssumeLoopBound":
		x.loopAssumeFn = x.constStr(a[0], "function name")
		x.loopAssume = x.concreteInt(a[1], "loop bound")
		return nil, true
	case "CallCount":
		n := 0
		want := x.constStr(a[0], "call name")
		for _, rc := range x.Env.Calls {
			if rc.Name == want {
				n++
			}
		}
		return IntV{B.Int(int64(n))}, true
	case "CallIndex":
		// index (in the global call log) of the k-th call with this name, -1 if none
		want := x.constStr(a[0], "call name")
		k := x.concreteInt(a[1], "k")
		for i, rc := range x.Env.Calls {
			if rc.Name == want {
				if k == 0 {
					return IntV{B.Int(int64(i))}, true
				}
				k--
			}
		}
		return IntV{B.Int(-1)}, true
	case "CallArg":
		// CallArg(callIndex, argIndex, dst *T): copies the recorded argument into dst
		i := x.concreteInt(a[0], "call index")
		j := x.concreteInt(a[1], "arg index")
		if i < 0 || i >= len(x.Env.Calls) || j >= len(x.Env.Calls[i].Args) {
			x.Unsupported("CallArg(%d,%d) out of range", i, j)
		}
		x.store(unwrapIface(a[2]), x.Env.Calls[i].Args[j])
		return nil, true
	case "CallRet":
		// CallRet(callIndex, retIndex, dst *T): copies the recorded result into dst
		i := x.concreteInt(a[0], "call index")
		j := x.concreteInt(a[1], "result index")
		if i < 0 || i >= len(x.Env.Calls) || j >= len(x.Env.Calls[i].Rets) {
			x.Unsupported("CallRet(%d,%d) out of range", i, j)
		}
		x.store(unwrapIface(a[2]), x.Env.Calls[i].Rets[j])
		return nil, true
	case "CallUnexported":
		// CallUnexported(pkgPath, funcName, args...): executes an unexported function of another
		// (imported, hence loaded) package of /repo from its SSA - the real code, reached without
		// a hook in /repo
		pkg := x.constStr(a[0], "package path")
		fname := x.constStr(a[1], "function name")
		fn := x.P.FindFunc(pkg, fname)
		if fn == nil {
			x.Unsupported("CallUnexported: %s.%s not found (is the package imported by the harness?)", pkg, fname)
		}
		var args []Value
		if sl, ok := a[2].(SliceV); ok && !sl.Nil {
			args = x.sliceElems(sl)
		}
		ps := fn.Signature.Params()
		for i := range args {
			// variadic interface{} elements: unwrap unless the parameter itself is an interface
			if i < ps.Len() && !types.IsInterface(ps.At(i).Type()) {
				args[i] = unwrapIface(args[i])
			}
		}
		r := x.CallFunction(fn, args, nil)
		if r == nil {
			return nil, true
		}
		if tv, ok := r.(TupleV); ok {
			return tv[len(tv)-1], true
		}
		return r, true
	case "SameObject":
		return BoolV{B.Bool(x.identityOf(a[0]) == x.identityOf(a[1]))}, true
	case "SerializedExactly":
		// data is the serialisation of exactly the one message m
		data := unwrapIface(a[0]).(SliceV)
		if data.Atom == nil {
			return BoolV{B.False}, true
		}
		want := B.App("serialize_cosmos_tx_1", smt.SStr, B.Int(int64(x.identityOf(a[1]))))
		return BoolV{B.Bool(data.Atom == want)}, true
	case "SetUnexportedField":
		pv := unwrapIface(a[0]).(PtrV)
		fname := x.constStr(a[1], "field name")
		iv := a[0].(IfaceV)
		st := iv.T.Underlying().(*types.Pointer).Elem().Underlying().(*types.Struct)
		for i := 0; i < st.NumFields(); i++ {
			if st.Field(i).Name() == fname {
				x.store(PtrV{Obj: pv.Obj, Path: appendPath(pv.Path, i)}, a[2])
				return nil, true
			}
		}
		x.Unsupported("no field %s", fname)
	case "DeepSnapshot":
		// an independent deep copy of the object graph below a pointer (for "unchanged" checks)
		return x.deepCopy(a[0], map[int]*Object{}), true
	case "DeepEqual":
		return BoolV{x.deepEqual(a[0], a[1], 0)}, true
	}
	return nil, false
}

func (x *Exec) deepCopy(v Value, seen map[int]*Object) Value {
	switch u := v.(type) {
	case IfaceV:
		return IfaceV{T: u.T, V: x.deepCopy(u.V, seen)}
	case PtrV:
		if u.Obj == nil {
			return u
		}
		if o, ok := seen[u.Obj.ID]; ok {
			return PtrV{Obj: o, Path: u.Path, Cond: u.Cond}
		}
		o := x.newObj(nil, u.Obj.Label+"(copy)")
		seen[u.Obj.ID] = o
		o.Val = x.deepCopy(u.Obj.Val, seen)
		return PtrV{Obj: o, Path: u.Path, Cond: u.Cond}
	case StructV:
		f := make([]Value, len(u.F))
		for i := range f {
			f[i] = x.deepCopy(u.F[i], seen)
		}
		return StructV{f}
	case ArrayV:
		e := make([]Value, len(u.E))
		for i := range e {
			e[i] = x.deepCopy(u.E[i], seen)
		}
		return ArrayV{e}
	case SliceV:
		if u.Arr == nil {
			return u
		}
		o, ok := seen[u.Arr.ID]
		if !ok {
			o = x.newObj(nil, "slice(copy)")
			seen[u.Arr.ID] = o
			o.Val = x.deepCopy(u.Arr.Val, seen)
		}
		return SliceV{Arr: o, Off: u.Off, Len: u.Len, Cap: u.Cap}
	}
	return v
}

func (x *Exec) deepEqual(a, b Value, depth int) *smt.Term {
	B := x.B
	if depth > 12 {
		x.Unsupported("deep comparison too deep")
	}
	switch av := a.(type) {
	case IfaceV:
		bv, ok := b.(IfaceV)
		if !ok {
			return B.False
		}
		if (av.T == nil) != (bv.T == nil) {
			return B.False
		}
		if av.T == nil {
			return B.True
		}
		return x.deepEqual(av.V, bv.V, depth+1)
	case PtrV:
		bv, ok := b.(PtrV)
		if !ok {
			return B.False
		}
		if av.Obj == nil || bv.Obj == nil {
			return B.Bool(av.Obj == nil && bv.Obj == nil)
		}
		return x.deepEqual(x.loadRaw(av), x.loadRaw(bv), depth+1)
	case StructV:
		bv, ok := b.(StructV)
		if !ok || len(av.F) != len(bv.F) {
			return B.False
		}
		r := B.True
		for i := range av.F {
			r = B.And(r, x.deepEqual(av.F[i], bv.F[i], depth+1))
		}
		return r
	case SliceV:
		bv, ok := b.(SliceV)
		if !ok {
			return B.False
		}
		if av.Atom != nil || bv.Atom != nil {
			isBytes := func(s SliceV) bool {
				if s.Atom != nil || s.Nil || s.Len == 0 {
					return true
				}
				_, ok := x.sliceElems(s)[0].(IntV)
				return ok
			}
			if !isBytes(av) || !isBytes(bv) {
				x.Unsupported("deep comparison of an opaque byte string with a %d-element slice of other values (labels %s / %s)", av.Len+bv.Len, x.describe(av), x.describe(bv))
			}
			return x.bytesEq(av, bv)
		}
		ea, eb := x.sliceElems(av), x.sliceElems(bv)
		if len(ea) != len(eb) {
			return B.False
		}
		r := B.True
		for i := range ea {
			r = B.And(r, x.deepEqual(ea[i], eb[i], depth+1))
		}
		return r
	case nil:
		return B.Bool(b == nil)
	}
	return x.valuesEqual(a, b)
}

// opaqueBytes turns a content byte slice that came from a string conversion of an atom
// back into its atom; other byte slices must already be opaque.
func (x *Exec) opaqueBytes(s SliceV) SliceV { return s }
