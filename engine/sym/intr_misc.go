package sym

import (
	"regexp"
	"strings"
)

var reDenom = regexp.MustCompile(`^[a-zA-Z][a-zA-Z0-9/:._-]{2,127}$`)

func registerMisc(p *Program) {
	// locks and Once: executions are single-threaded
	nop := func(x *Exec, c *CallCtx) Value { return nil }
	for _, m := range []string{"(*sync.Mutex).Lock", "(*sync.Mutex).Unlock", "(*sync.RWMutex).Lock", "(*sync.RWMutex).Unlock",
		"(*sync.RWMutex).RLock", "(*sync.RWMutex).RUnlock"} {
		p.Intr[m] = nop
	}
	p.Intr["(*sync.Mutex).TryLock"] = func(x *Exec, c *CallCtx) Value { return BoolV{x.B.True} }
	// constructors of the real servers, so that harnesses can call the real NewServer and keep
	// whatever else it puts into the server object: the module database and the generated
	// state store become the table models, the ID hasher an uninterpreted function
	p.Intr[RegenPrefix+"types/v2/ormstore.NewStoreKeyDB"] = func(x *Exec, c *CallCtx) Value {
		return TupleV{ModelV{&NopModel{name: "ModuleDB"}}, IfaceV{}}
	}
	p.Intr[RegenPrefix+"x/data/v3/server/hasher.NewHasher"] = func(x *Exec, c *CallCtx) Value {
		return TupleV{ModelV{&RecorderModel{name: "hasher", env: x.Env, uf: true}}, IfaceV{}}
	}
	// genesis validation builds an in-memory ORM database and imports the JSON document into
	// it: here the database is the table model with arbitrary content (the document is "any
	// document"), ImportJSON/ValidateJSON succeed (ValidateJSON = every row passes the module's
	// validators, which is what the row invariants assume on every row that is read)
	orm := "github.com/cosmos/cosmos-sdk/orm/"
	opaque := func(kind string) Intrinsic {
		return func(x *Exec, c *CallCtx) Value { return ModelV{&NopModel{name: kind}} }
	}
	p.Intr["github.com/cometbft/cometbft-db.NewMemDB"] = func(x *Exec, c *CallCtx) Value {
		return PtrV{Obj: x.newObj(OpaqueV{Kind: "memdb"}, "memdb")}
	}
	p.Intr[RegenPrefix+"types/v2/ormutil.NewStoreAdapter"] = opaque("kvstore")
	p.Intr[orm+"model/ormtable.NewBackend"] = opaque("ormbackend")
	p.Intr[orm+"model/ormtable.WrapContextDefault"] = func(x *Exec, c *CallCtx) Value {
		x.Env.ctxState(x)
		return ModelV{&CtxModel{env: x.Env}}
	}
	p.Intr[orm+"model/ormdb.NewModuleDB"] = func(x *Exec, c *CallCtx) Value {
		return TupleV{ModelV{&NopModel{name: "ModuleDB"}}, IfaceV{}}
	}
	p.Intr[orm+"types/ormjson.NewRawMessageSource"] = func(x *Exec, c *CallCtx) Value {
		return TupleV{ModelV{&NopModel{name: "jsonsource"}}, IfaceV{}}
	}
	for path := range p.ByPath {
		if strings.HasPrefix(path, RegenPrefix+"api/") {
			p.Intr[path+".NewStateStore"] = func(x *Exec, c *CallCtx) Value {
				return TupleV{ModelV{&StoreModel{env: x.Env}}, IfaceV{}}
			}
		}
	}
	p.Intr["net/url.ParseRequestURI"] = func(x *Exec, c *CallCtx) Value {
		s := c.Args[0].(StrV)
		t := x.strAtomTerm(s)
		if t == nil {
			x.Unsupported("url.ParseRequestURI on a content string")
		}
		if s.IsConst && s.S == "" {
			return TupleV{PtrV{}, x.newErr("url", "empty url")}
		}
		// url.ParseRequestURI rejects the empty string
		ok := x.B.App("valid_request_uri", 0, t)
		x.Assume(x.B.Implies(ok, x.B.Not(x.B.Eq(t, x.B.StrConst("")))), "a valid request URI is not empty")
		if x.Branch(ok) {
			return TupleV{PtrV{Obj: x.newObj(OpaqueV{Kind: "url"}, "url")}, IfaceV{}}
		}
		return TupleV{PtrV{}, x.newErr("url", "invalid URI for request")}
	}
}
