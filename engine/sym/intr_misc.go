package sym

import (
	"regexp"
)

var reDenom = regexp.MustCompile(`^[a-zA-Z][a-zA-Z0-9/:._-]{2,127}$`)

func registerMisc(p *Program) {
	p.Intr["net/url.ParseRequestURI"] = func(x *Exec, c *CallCtx) Value {
		s := c.Args[0].(StrV)
		t := x.strAtomTerm(s)
		if t == nil {
			x.Unsupported("url.ParseRequestURI on a content string")
		}
		if x.Branch(x.B.App("valid_request_uri", 0, t)) {
			return TupleV{PtrV{Obj: x.newObj(OpaqueV{Kind: "url"}, "url")}, IfaceV{}}
		}
		return TupleV{PtrV{}, x.newErr("url", "invalid URI for request")}
	}
}
