package sym

import (
	"regexp"
)

var reDenom = regexp.MustCompile(`^[a-zA-Z][a-zA-Z0-9/:._-]{2,127}$`)

func registerTime(p *Program)       {}
func registerStringsPkg(p *Program) {}
func registerEnv(p *Program)        {}
func registerMisc(p *Program)       {}

type Env struct{}

func newEnv(x *Exec) *Env { return &Env{} }

func (x *Exec) zzverifEnv(name string, c *CallCtx) (Value, bool) { return nil, false }

func (x *Exec) nondetTime(label string) Value {
	x.Unsupported("nondet time")
	return nil
}
