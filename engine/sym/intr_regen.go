package sym

import (
	"golang.org/x/tools/go/ssa"

	"verif/engine/smt"
)

const basePkg = RegenPrefix + "x/ecocredit/v3/base"

// Regen's pure id-parsing functions loop over characters. On content strings they are
// executed from SSA; on opaque atoms they become uninterpreted functions (registered
// summaries). The lemmas relating them are proved at content level by the C14 harnesses.
func registerRegen(p *Program) {
	uf := func(name string) Intrinsic {
		return func(x *Exec, c *CallCtx) Value {
			s := c.Args[0].(StrV)
			if s.Atom == nil {
				return x.CallFunction(c.Fn, c.Args, nil)
			}
			x.Summ["lemma-summary:"+name]++
			return StrV{Atom: x.B.App(name, smt.SStr, s.Atom)}
		}
	}
	p.Intr[basePkg+".GetClassIDFromBatchDenom"] = uf("class_id_of_denom")
	p.Intr[basePkg+".GetProjectIDFromBatchDenom"] = uf("project_id_of_denom")
	p.Intr[basePkg+".GetClassIDFromProjectID"] = uf("class_id_of_project_id")
	p.Intr[basePkg+".GetCreditTypeAbbrevFromClassID"] = uf("abbrev_of_class_id")

	// Formatters on opaque strings: uninterpreted functions plus the lemmas proved at content
	// level by the C14 harnesses (C14_ClassID, C14_ProjectID, C14_BatchDenom, C14_Injective*).
	rePat := func(x *Exec, varName string) string {
		sp := x.P.ByPath[basePkg]
		if sp == nil {
			x.Unsupported("package %s not loaded", basePkg)
		}
		g, ok := sp.Members[varName].(*ssa.Global)
		if !ok {
			x.Unsupported("regexp variable %s not found", varName)
		}
		return x.regexpOf(x.load(PtrV{Obj: x.globalObj(g)})).Pattern
	}
	reAtom := func(x *Exec, varName string, a *smt.Term) *smt.Term {
		return x.regexMatch(rePat(x, varName), StrV{Atom: a})
	}
	p.Intr[basePkg+".FormatClassID"] = func(x *Exec, c *CallCtx) Value {
		abbrev := c.Args[0].(StrV)
		if abbrev.Atom == nil {
			return x.CallFunction(c.Fn, c.Args, nil)
		}
		B := x.B
		seq := c.Args[1].(IntV).T
		id := B.App("format_class_id", smt.SStr, abbrev.Atom, seq)
		x.Summ["lemma-summary:FormatClassID"]++
		if !x.lenAxiom[id.ID] {
			x.lenAxiom[id.ID] = true
			x.Assume(B.And(
				B.Implies(reAtom(x, "regexCreditTypeAbbrev", abbrev.Atom), reAtom(x, "regexClassID", id)),
				B.Eq(B.App("abbrev_of_class_id", smt.SStr, id), abbrev.Atom),
				B.Eq(B.App("seq_of_class_id", smt.SInt, id), seq),
				B.Not(B.Eq(id, B.StrConst("")))), "lemma: FormatClassID (C14_ClassID, C14_InjectiveClassID)")
		}
		return StrV{Atom: id}
	}
	p.Intr[basePkg+".FormatProjectID"] = func(x *Exec, c *CallCtx) Value {
		classID := c.Args[0].(StrV)
		if classID.Atom == nil {
			return x.CallFunction(c.Fn, c.Args, nil)
		}
		B := x.B
		seq := c.Args[1].(IntV).T
		id := B.App("format_project_id", smt.SStr, classID.Atom, seq)
		x.Summ["lemma-summary:FormatProjectID"]++
		if !x.lenAxiom[id.ID] {
			x.lenAxiom[id.ID] = true
			x.Assume(B.And(
				B.Implies(reAtom(x, "regexClassID", classID.Atom), B.And(reAtom(x, "regexProjectID", id),
					B.Eq(B.App("class_id_of_project_id", smt.SStr, id), classID.Atom))),
				B.Eq(B.App("class_of_project_id_inv", smt.SStr, id), classID.Atom),
				B.Eq(B.App("seq_of_project_id", smt.SInt, id), seq),
				B.Not(B.Eq(id, B.StrConst("")))), "lemma: FormatProjectID (C14_ProjectID, C14_InjectiveProjectID)")
		}
		return StrV{Atom: id}
	}
	p.Intr[basePkg+".FormatBatchDenom"] = func(x *Exec, c *CallCtx) Value {
		pid := c.Args[0].(StrV)
		if pid.Atom == nil {
			return x.CallFunction(c.Fn, c.Args, nil)
		}
		B := x.B
		seq := c.Args[1].(IntV).T
		start, end := x.timeOf(c.Args[2]), x.timeOf(c.Args[3])
		day := func(t TimeV) *smt.Term { return B.Div(t.Sec, B.Int(86400)) }
		d := B.App("format_batch_denom", smt.SStr, pid.Atom, seq, day(start), day(end))
		x.Summ["lemma-summary:FormatBatchDenom"]++
		if !x.lenAxiom[d.ID] {
			x.lenAxiom[d.ID] = true
			x.Assume(B.And(
				B.Implies(reAtom(x, "regexProjectID", pid.Atom), B.And(reAtom(x, "regexBatchDenom", d),
					B.Eq(B.App("project_id_of_denom", smt.SStr, d), pid.Atom),
					B.Eq(B.App("class_id_of_denom", smt.SStr, d), B.App("class_id_of_project_id", smt.SStr, pid.Atom)))),
				B.Eq(B.App("project_of_denom_inv", smt.SStr, d), pid.Atom),
				B.Eq(B.App("seq_of_denom", smt.SInt, d), seq),
				B.Not(B.Eq(d, B.StrConst("")))), "lemma: FormatBatchDenom (C14_BatchDenom)")
		}
		return TupleV{StrV{Atom: d}, IfaceV{}}
	}

	// gogo <-> pulsar conversions through the wire format: structural field-by-field copy
	// between the two generated structs of the same proto message (trusted).
	conv := func(x *Exec, c *CallCtx) Value {
		if n, _ := isNilValue(unwrapIface(c.Args[0])); n {
			return IfaceV{}
		}
		x.copyMessage(c.Args[1], c.Args[0])
		return IfaceV{}
	}
	p.Intr[RegenPrefix+"types/v2/ormutil.PulsarToGogoSlow"] = conv
	p.Intr[RegenPrefix+"types/v2/ormutil.GogoToPulsarSlow"] = conv
	p.Intr[RegenPrefix+"x/ecocredit/v3/marketplace/keeper.gogoToProtoReflect"] = conv

	// FormatBasketDenom on opaque strings: an uninterpreted function of its arguments plus
	// the lemmas proved at content level by the C14 harness C14_BasketDenom:
	// the denom is a valid bank denom and is accepted by ValidateBasketDenom.
	basketPkg := RegenPrefix + "x/ecocredit/v3/basket"
	p.Intr[basketPkg+".FormatBasketDenom"] = func(x *Exec, c *CallCtx) Value {
		name, abbrev := c.Args[0].(StrV), c.Args[1].(StrV)
		if name.Atom == nil && abbrev.Atom == nil {
			return x.CallFunction(c.Fn, c.Args, nil)
		}
		B := x.B
		// the exponent -> prefix lookup is executed for real
		pre := x.CallFunction(x.P.FindFunc(basePkg, "ExponentToPrefix"), []Value{c.Args[2]}, nil).(TupleV)
		if n, _ := isNilValue(pre[1]); !n {
			return TupleV{StrV{IsConst: true}, StrV{IsConst: true}, pre[1]}
		}
		x.Summ["lemma-summary:FormatBasketDenom"]++
		pt := x.strAtomTerm(pre[0].(StrV))
		d := B.App("format_basket_denom", smt.SStr, x.strAtomTerm(name), x.strAtomTerm(abbrev), pt)
		dd := B.App("format_basket_display_denom", smt.SStr, x.strAtomTerm(name), x.strAtomTerm(abbrev))
		if !x.lenAxiom[d.ID] {
			x.lenAxiom[d.ID] = true
			x.Assume(B.And(B.App("valid_sdk_denom", smt.SBool, d), B.App("valid_sdk_denom", smt.SBool, dd),
				B.Not(B.Eq(d, B.StrConst(""))), B.Not(B.Eq(dd, B.StrConst("")))), "lemma: formatted basket denoms are valid bank denoms")
			x.formattedBasketDenoms = append(x.formattedBasketDenoms, d)
		}
		return TupleV{StrV{Atom: d}, StrV{Atom: dd}, IfaceV{}}
	}
}
