package sym

import (
	"verif/engine/smt"
)

const basePkg = RegenPrefix + "x/ecocredit/v3/base"

// Regen's pure id-parsing functions loop over characters. On content strings they are
// executed from SSA; on opaque atoms they become uninterpreted functions (registered
// summaries). The lemmas relating them are proved at content level by the C14 harnesses.
func registerRegen(p *Program) {
	uf := func(name string) Intrinsic {
		return func(x *Exec, c *CallCtx) Value {
			s := c.Args[0].(StrV)
			if s.Atom == nil {
				return x.CallFunction(c.Fn, c.Args, nil)
			}
			x.Summ["lemma-summary:"+name]++
			return StrV{Atom: x.B.App(name, smt.SStr, s.Atom)}
		}
	}
	p.Intr[basePkg+".GetClassIDFromBatchDenom"] = uf("class_id_of_denom")
	p.Intr[basePkg+".GetProjectIDFromBatchDenom"] = uf("project_id_of_denom")
	p.Intr[basePkg+".GetClassIDFromProjectID"] = uf("class_id_of_project_id")
	p.Intr[basePkg+".GetCreditTypeAbbrevFromClassID"] = uf("abbrev_of_class_id")

	// gogo <-> pulsar conversions through the wire format: structural field-by-field copy
	// between the two generated structs of the same proto message (trusted).
	conv := func(x *Exec, c *CallCtx) Value {
		if n, _ := isNilValue(unwrapIface(c.Args[0])); n {
			return IfaceV{}
		}
		x.copyMessage(c.Args[1], c.Args[0])
		return IfaceV{}
	}
	p.Intr[RegenPrefix+"types/v2/ormutil.PulsarToGogoSlow"] = conv
	p.Intr[RegenPrefix+"types/v2/ormutil.GogoToPulsarSlow"] = conv
	p.Intr[RegenPrefix+"x/ecocredit/v3/marketplace/keeper.gogoToProtoReflect"] = conv

	// FormatBasketDenom on opaque strings: an uninterpreted function of its arguments plus
	// the lemmas proved at content level by the C14 harness C14_BasketDenom:
	// the denom is a valid bank denom and is accepted by ValidateBasketDenom.
	basketPkg := RegenPrefix + "x/ecocredit/v3/basket"
	p.Intr[basketPkg+".FormatBasketDenom"] = func(x *Exec, c *CallCtx) Value {
		name, abbrev := c.Args[0].(StrV), c.Args[1].(StrV)
		if name.Atom == nil && abbrev.Atom == nil {
			return x.CallFunction(c.Fn, c.Args, nil)
		}
		B := x.B
		// the exponent -> prefix lookup is executed for real
		pre := x.CallFunction(x.P.FindFunc(basePkg, "ExponentToPrefix"), []Value{c.Args[2]}, nil).(TupleV)
		if n, _ := isNilValue(pre[1]); !n {
			return TupleV{StrV{IsConst: true}, StrV{IsConst: true}, pre[1]}
		}
		x.Summ["lemma-summary:FormatBasketDenom"]++
		pt := x.strAtomTerm(pre[0].(StrV))
		d := B.App("format_basket_denom", smt.SStr, x.strAtomTerm(name), x.strAtomTerm(abbrev), pt)
		dd := B.App("format_basket_display_denom", smt.SStr, x.strAtomTerm(name), x.strAtomTerm(abbrev))
		if !x.lenAxiom[d.ID] {
			x.lenAxiom[d.ID] = true
			x.Assume(B.And(B.App("valid_sdk_denom", smt.SBool, d), B.App("valid_sdk_denom", smt.SBool, dd),
				B.Not(B.Eq(d, B.StrConst(""))), B.Not(B.Eq(dd, B.StrConst("")))), "lemma: formatted basket denoms are valid bank denoms")
			x.formattedBasketDenoms = append(x.formattedBasketDenoms, d)
		}
		return TupleV{StrV{Atom: d}, StrV{Atom: dd}, IfaceV{}}
	}
}
