package sym

import (
	"verif/engine/smt"
)

const basePkg = RegenPrefix + "x/ecocredit/v3/base"

// Regen's pure id-parsing functions loop over characters. On content strings they are
// executed from SSA; on opaque atoms they become uninterpreted functions (registered
// summaries). The lemmas relating them are proved at content level by the C14 harnesses.
func registerRegen(p *Program) {
	uf := func(name string) Intrinsic {
		return func(x *Exec, c *CallCtx) Value {
			s := c.Args[0].(StrV)
			if s.Atom == nil {
				return x.CallFunction(c.Fn, c.Args, nil)
			}
			x.Summ["lemma-summary:"+name]++
			return StrV{Atom: x.B.App(name, smt.SStr, s.Atom)}
		}
	}
	p.Intr[basePkg+".GetClassIDFromBatchDenom"] = uf("class_id_of_denom")
	p.Intr[basePkg+".GetProjectIDFromBatchDenom"] = uf("project_id_of_denom")
	p.Intr[basePkg+".GetClassIDFromProjectID"] = uf("class_id_of_project_id")
	p.Intr[basePkg+".GetCreditTypeAbbrevFromClassID"] = uf("abbrev_of_class_id")
}
