package sym

import (
	"go/types"
	"math/big"

	"verif/engine/smt"
)

const (
	sdkmathPkg = "cosmossdk.io/math"
	sdkTypes   = "github.com/cosmos/cosmos-sdk/types"
)

var max256 = new(big.Int).Sub(new(big.Int).Lsh(big.NewInt(1), 256), big.NewInt(1))

func (x *Exec) sdkInt(v Value) SdkIntV {
	if iv, ok := v.(IfaceV); ok {
		v = iv.V
	}
	s, ok := v.(SdkIntV)
	if !ok {
		x.Unsupported("expected sdkmath.Int, got %T", v)
	}
	return s
}

func (x *Exec) sdkIntNonNil(v Value, what string) *smt.Term {
	s := x.sdkInt(v)
	if s.Nil {
		panic(goPanic{Msg: "nil pointer dereference in sdkmath.Int." + what})
	}
	return s.T
}

// checkInt256 panics (as sdkmath does) when |t| needs more than 256 bits.
func (x *Exec) checkInt256(t *smt.Term) {
	B := x.B
	if t.Lo != nil && t.Hi != nil && new(big.Int).Abs(t.Lo).Cmp(max256) <= 0 && new(big.Int).Abs(t.Hi).Cmp(max256) <= 0 {
		return
	}
	over := B.Or(B.Gt(t, B.BigInt(max256)), B.Lt(t, B.BigInt(new(big.Int).Neg(max256))))
	if x.Branch(over) {
		panic(goPanic{Msg: "Int overflow"})
	}
}

func (x *Exec) nondetSdkInt(label string) Value {
	t := x.B.Var("nd_"+label, smt.SInt)
	x.addNondet(label, "sdkint", t)
	lim := x.B.BigInt(max256)
	x.Assume(x.B.And(x.B.Le(x.B.Neg(lim), t), x.B.Le(t, lim)), "sdk.Int range")
	return SdkIntV{T: t}
}

func (x *Exec) nondetCoin(label string) Value {
	return StructV{F: []Value{StrV{Atom: x.nondetAtom(label + ".Denom")}, x.nondetSdkInt(label + ".Amount")}}
}

func registerSdkInt(p *Program) {
	I := sdkmathPkg + ".Int"
	p.Intr[sdkmathPkg+".NewIntFromBigInt"] = func(x *Exec, c *CallCtx) Value {
		if n, _ := isNilValue(c.Args[0]); n {
			return SdkIntV{Nil: true}
		}
		t := x.bigSigned(x.loadBig(c.Args[0]))
		x.checkInt256(t)
		return SdkIntV{T: t}
	}
	p.Intr[sdkmathPkg+".NewInt"] = func(x *Exec, c *CallCtx) Value { return SdkIntV{T: c.Args[0].(IntV).T} }
	p.Intr[sdkmathPkg+".NewIntFromUint64"] = p.Intr[sdkmathPkg+".NewInt"]
	p.Intr[sdkmathPkg+".ZeroInt"] = func(x *Exec, c *CallCtx) Value { return SdkIntV{T: x.B.Int(0)} }
	p.Intr[sdkmathPkg+".OneInt"] = func(x *Exec, c *CallCtx) Value { return SdkIntV{T: x.B.Int(1)} }
	p.Intr[sdkmathPkg+".NewIntFromString"] = func(x *Exec, c *CallCtx) Value {
		B := x.B
		s := c.Args[0].(StrV)
		if s.IsConst {
			v, ok := new(big.Int).SetString(s.S, 0)
			if !ok || v.BitLen() > 256 {
				return TupleV{SdkIntV{Nil: true}, BoolV{B.False}}
			}
			return TupleV{SdkIntV{T: B.BigInt(v)}, BoolV{B.True}}
		}
		if s.Atom == nil {
			x.Unsupported("NewIntFromString on a content string")
		}
		ok := x.decIsIntLiteral(s.Atom)
		if !x.Branch(ok) {
			return TupleV{SdkIntV{Nil: true}, BoolV{B.False}}
		}
		neg, mag := x.decAtomParts(s.Atom)
		x.linkMag(mag)
		t := B.Ite(neg, B.Neg(B.Floor(mag)), B.Floor(mag))
		over := B.Or(B.Gt(t, B.BigInt(max256)), B.Lt(t, B.BigInt(new(big.Int).Neg(max256))))
		if x.Branch(over) {
			return TupleV{SdkIntV{Nil: true}, BoolV{B.False}}
		}
		return TupleV{SdkIntV{T: t}, BoolV{B.True}}
	}
	p.Intr["("+I+").IsNil"] = func(x *Exec, c *CallCtx) Value { return BoolV{x.B.Bool(x.sdkInt(c.Args[0]).Nil)} }
	pred := func(f func(B *smt.Builder, t *smt.Term) *smt.Term, name string) Intrinsic {
		return func(x *Exec, c *CallCtx) Value { return BoolV{f(x.B, x.sdkIntNonNil(c.Args[0], name))} }
	}
	p.Intr["("+I+").IsZero"] = pred(func(B *smt.Builder, t *smt.Term) *smt.Term { return B.Eq(t, B.Int(0)) }, "IsZero")
	p.Intr["("+I+").IsPositive"] = pred(func(B *smt.Builder, t *smt.Term) *smt.Term { return B.Gt(t, B.Int(0)) }, "IsPositive")
	p.Intr["("+I+").IsNegative"] = pred(func(B *smt.Builder, t *smt.Term) *smt.Term { return B.Lt(t, B.Int(0)) }, "IsNegative")
	cmp := func(f func(B *smt.Builder, a, b *smt.Term) *smt.Term, name string) Intrinsic {
		return func(x *Exec, c *CallCtx) Value {
			return BoolV{f(x.B, x.sdkIntNonNil(c.Args[0], name), x.sdkIntNonNil(c.Args[1], name))}
		}
	}
	p.Intr["("+I+").Equal"] = cmp(func(B *smt.Builder, a, b *smt.Term) *smt.Term { return B.Eq(a, b) }, "Equal")
	p.Intr["("+I+").GT"] = cmp(func(B *smt.Builder, a, b *smt.Term) *smt.Term { return B.Gt(a, b) }, "GT")
	p.Intr["("+I+").GTE"] = cmp(func(B *smt.Builder, a, b *smt.Term) *smt.Term { return B.Ge(a, b) }, "GTE")
	p.Intr["("+I+").LT"] = cmp(func(B *smt.Builder, a, b *smt.Term) *smt.Term { return B.Lt(a, b) }, "LT")
	p.Intr["("+I+").LTE"] = cmp(func(B *smt.Builder, a, b *smt.Term) *smt.Term { return B.Le(a, b) }, "LTE")
	arith := func(f func(B *smt.Builder, a, b *smt.Term) *smt.Term, name string) Intrinsic {
		return func(x *Exec, c *CallCtx) Value {
			t := f(x.B, x.sdkIntNonNil(c.Args[0], name), x.sdkIntNonNil(c.Args[1], name))
			x.checkInt256(t)
			return SdkIntV{T: t}
		}
	}
	p.Intr["("+I+").Add"] = arith(func(B *smt.Builder, a, b *smt.Term) *smt.Term { return B.Add(a, b) }, "Add")
	p.Intr["("+I+").Sub"] = arith(func(B *smt.Builder, a, b *smt.Term) *smt.Term { return B.Sub(a, b) }, "Sub")
	p.Intr["("+I+").Mul"] = arith(func(B *smt.Builder, a, b *smt.Term) *smt.Term { return B.Mul(a, b) }, "Mul")
	p.Intr["("+I+").Neg"] = func(x *Exec, c *CallCtx) Value {
		return SdkIntV{T: x.B.Neg(x.sdkIntNonNil(c.Args[0], "Neg"))}
	}
	p.Intr["("+I+").String"] = func(x *Exec, c *CallCtx) Value {
		s := x.sdkInt(c.Args[0])
		if s.Nil {
			return StrV{IsConst: true, S: "<nil>"}
		}
		return x.intToStr(s.T)
	}
	p.Intr["("+I+").BigInt"] = func(x *Exec, c *CallCtx) Value {
		s := x.sdkInt(c.Args[0])
		if s.Nil {
			return PtrV{}
		}
		return x.newBigPtr(s.T)
	}
	p.Intr["("+I+").Int64"] = func(x *Exec, c *CallCtx) Value {
		B := x.B
		t := x.sdkIntNonNil(c.Args[0], "Int64")
		if x.Branch(B.Or(B.Lt(t, B.BigInt(minI64)), B.Gt(t, B.BigInt(maxI64)))) {
			panic(goPanic{Msg: "Int64() out of bound"})
		}
		return IntV{t}
	}
	p.Intr["("+I+").Uint64"] = func(x *Exec, c *CallCtx) Value {
		B := x.B
		t := x.sdkIntNonNil(c.Args[0], "Uint64")
		_, hi := smt.TypeRange(64, false)
		if x.Branch(B.Or(B.Lt(t, B.Int(0)), B.Gt(t, B.BigInt(hi)))) {
			panic(goPanic{Msg: "Uint64() out of bounds"})
		}
		return IntV{t}
	}
}

// ---- sdk.Coin / sdk.Coins

func (x *Exec) coinOf(v Value) (StrV, SdkIntV) {
	if iv, ok := v.(IfaceV); ok {
		v = iv.V
	}
	if p, ok := v.(PtrV); ok {
		v = x.load(p)
	}
	s, ok := v.(StructV)
	if !ok || len(s.F) != 2 {
		x.Unsupported("expected sdk.Coin, got %T", v)
	}
	return s.F[0].(StrV), x.sdkInt(s.F[1])
}

func (x *Exec) mkCoin(denom StrV, amt *smt.Term) Value {
	return StructV{F: []Value{denom, SdkIntV{T: amt}}}
}

// validDenom is the uninterpreted predicate for sdk.ValidateDenom (regex on an opaque string).
func (x *Exec) validDenom(d StrV) *smt.Term {
	if d.IsConst {
		return x.B.Bool(reDenom.MatchString(d.S))
	}
	if d.Atom == nil {
		return x.nfaMatch(reDenom.String(), d.Bytes)
	}
	t := x.B.App("valid_sdk_denom", smt.SBool, d.Atom)
	if !x.lenAxiom[t.ID] {
		x.lenAxiom[t.ID] = true
		l := x.atomLen(d.Atom)
		x.Assume(x.B.Implies(t, x.B.And(x.B.Le(x.B.Int(3), l), x.B.Le(l, x.B.Int(128)))), "a valid denom has 3..128 characters")
	}
	return t
}

func registerSDK(p *Program) {
	C := sdkTypes + ".Coin"
	p.Intr[sdkTypes+".NewCoin"] = func(x *Exec, c *CallCtx) Value {
		denom := c.Args[0].(StrV)
		amt := x.sdkInt(c.Args[1])
		B := x.B
		// NewCoin validates: denom must be valid, amount non-nil and non-negative
		if !x.Branch(x.validDenom(denom)) {
			panic(goPanic{Msg: "invalid denom"})
		}
		if amt.Nil {
			panic(goPanic{Msg: "amount is nil"})
		}
		if x.Branch(B.Lt(amt.T, B.Int(0))) {
			panic(goPanic{Msg: "negative coin amount"})
		}
		return x.mkCoin(denom, amt.T)
	}
	p.Intr[sdkTypes+".NewInt64Coin"] = func(x *Exec, c *CallCtx) Value {
		denom := c.Args[0].(StrV)
		amt := c.Args[1].(IntV).T
		if !x.Branch(x.validDenom(denom)) {
			panic(goPanic{Msg: "invalid denom"})
		}
		if x.Branch(x.B.Lt(amt, x.B.Int(0))) {
			panic(goPanic{Msg: "negative coin amount"})
		}
		return x.mkCoin(denom, amt)
	}
	p.Intr["("+C+").Validate"] = func(x *Exec, c *CallCtx) Value {
		denom, amt := x.coinOf(c.Args[0])
		if !x.Branch(x.validDenom(denom)) {
			return x.newErr("coin-validate", "invalid denom")
		}
		if amt.Nil {
			return x.newErr("coin-validate", "amount is nil")
		}
		if x.Branch(x.B.Lt(amt.T, x.B.Int(0))) {
			return x.newErr("coin-validate", "negative coin amount")
		}
		return IfaceV{}
	}
	p.Intr["("+C+").IsValid"] = func(x *Exec, c *CallCtx) Value {
		denom, amt := x.coinOf(c.Args[0])
		if amt.Nil {
			return BoolV{x.B.False}
		}
		return BoolV{x.B.And(x.validDenom(denom), x.B.Ge(amt.T, x.B.Int(0)))}
	}
	p.Intr["("+C+").IsNil"] = func(x *Exec, c *CallCtx) Value {
		_, amt := x.coinOf(c.Args[0])
		return BoolV{x.B.Bool(amt.Nil)}
	}
	p.Intr["("+C+").IsZero"] = func(x *Exec, c *CallCtx) Value {
		_, amt := x.coinOf(c.Args[0])
		return BoolV{x.B.Eq(x.sdkIntNonNil(amt, "IsZero"), x.B.Int(0))}
	}
	p.Intr["("+C+").IsPositive"] = func(x *Exec, c *CallCtx) Value {
		_, amt := x.coinOf(c.Args[0])
		return BoolV{x.B.Gt(x.sdkIntNonNil(amt, "IsPositive"), x.B.Int(0))}
	}
	p.Intr["("+C+").IsNegative"] = func(x *Exec, c *CallCtx) Value {
		_, amt := x.coinOf(c.Args[0])
		return BoolV{x.B.Lt(x.sdkIntNonNil(amt, "IsNegative"), x.B.Int(0))}
	}
	p.Intr["("+C+").String"] = func(x *Exec, c *CallCtx) Value {
		// a deterministic function of the coin (amounts that are nil render as <nil>)
		d, amt := x.coinOf(c.Args[0])
		if amt.Nil {
			return StrV{Atom: x.B.App("coin_str_nil", smt.SStr, x.strAtomTerm(d))}
		}
		return StrV{Atom: x.B.App("coin_str", smt.SStr, x.strAtomTerm(d), amt.T)}
	}
	coinCmp := func(f func(B *smt.Builder, a, b *smt.Term) *smt.Term, name string) Intrinsic {
		return func(x *Exec, c *CallCtx) Value {
			d1, a1 := x.coinOf(c.Args[0])
			d2, a2 := x.coinOf(c.Args[1])
			if !x.Branch(x.stringEq(d1, d2)) {
				panic(goPanic{Msg: "invalid coin denominations in " + name})
			}
			return BoolV{f(x.B, x.sdkIntNonNil(a1, name), x.sdkIntNonNil(a2, name))}
		}
	}
	p.Intr["("+C+").IsLT"] = coinCmp(func(B *smt.Builder, a, b *smt.Term) *smt.Term { return B.Lt(a, b) }, "IsLT")
	p.Intr["("+C+").IsLTE"] = coinCmp(func(B *smt.Builder, a, b *smt.Term) *smt.Term { return B.Le(a, b) }, "IsLTE")
	p.Intr["("+C+").IsGTE"] = coinCmp(func(B *smt.Builder, a, b *smt.Term) *smt.Term { return B.Ge(a, b) }, "IsGTE")
	p.Intr["("+C+").IsGT"] = coinCmp(func(B *smt.Builder, a, b *smt.Term) *smt.Term { return B.Gt(a, b) }, "IsGT")
	p.Intr["("+C+").IsEqual"] = func(x *Exec, c *CallCtx) Value {
		d1, a1 := x.coinOf(c.Args[0])
		d2, a2 := x.coinOf(c.Args[1])
		// v0.47: IsEqual panics on different denoms
		if !x.Branch(x.stringEq(d1, d2)) {
			panic(goPanic{Msg: "invalid coin denominations in IsEqual"})
		}
		return BoolV{x.B.Eq(x.sdkIntNonNil(a1, "IsEqual"), x.sdkIntNonNil(a2, "IsEqual"))}
	}
	p.Intr["("+C+").Add"] = func(x *Exec, c *CallCtx) Value {
		d1, a1 := x.coinOf(c.Args[0])
		d2, a2 := x.coinOf(c.Args[1])
		if !x.Branch(x.stringEq(d1, d2)) {
			panic(goPanic{Msg: "invalid coin denominations in Add"})
		}
		return x.mkCoin(d1, x.B.Add(x.sdkIntNonNil(a1, "Add"), x.sdkIntNonNil(a2, "Add")))
	}
	p.Intr["("+C+").Sub"] = func(x *Exec, c *CallCtx) Value {
		d1, a1 := x.coinOf(c.Args[0])
		d2, a2 := x.coinOf(c.Args[1])
		if !x.Branch(x.stringEq(d1, d2)) {
			panic(goPanic{Msg: "invalid coin denominations in Sub"})
		}
		r := x.B.Sub(x.sdkIntNonNil(a1, "Sub"), x.sdkIntNonNil(a2, "Sub"))
		if x.Branch(x.B.Lt(r, x.B.Int(0))) {
			panic(goPanic{Msg: "negative coin amount"})
		}
		return x.mkCoin(d1, r)
	}
	// sdk.NewCoins(coins...): sorted, zero coins dropped, panics on duplicates/invalid
	p.Intr[sdkTypes+".NewCoins"] = func(x *Exec, c *CallCtx) Value {
		sl := c.Args[0].(SliceV)
		es := x.sliceElems(sl)
		if len(es) > 1 {
			x.Unsupported("sdk.NewCoins with more than one coin")
		}
		var out []Value
		for _, e := range es {
			d, a := x.coinOf(e)
			if !x.Branch(x.validDenom(d)) {
				panic(goPanic{Msg: "invalid denom in NewCoins"})
			}
			t := x.sdkIntNonNil(a, "NewCoins")
			if x.Branch(x.B.Lt(t, x.B.Int(0))) {
				panic(goPanic{Msg: "negative coin in NewCoins"})
			}
			if x.Branch(x.B.Eq(t, x.B.Int(0))) {
				continue
			}
			out = append(out, e)
		}
		if len(out) == 0 {
			return SliceV{Arr: x.newObj(ArrayV{nil}, "coins"), Len: 0, Cap: 0}
		}
		return x.mkSlice(out)
	}
	p.Intr["("+sdkTypes+".Coins).Validate"] = func(x *Exec, c *CallCtx) Value {
		sl := c.Args[0].(SliceV)
		es := x.sliceElems(sl)
		var prev *smt.Term
		for _, e := range es {
			d, a := x.coinOf(e)
			if !x.Branch(x.validDenom(d)) {
				return x.newErr("coins-validate", "invalid denom")
			}
			if a.Nil {
				return x.newErr("coins-validate", "nil amount")
			}
			if !x.Branch(x.B.Gt(a.T, x.B.Int(0))) {
				return x.newErr("coins-validate", "coin is not positive")
			}
			// denominations strictly ascending (sorted, no duplicates)
			dt := x.strAtomTerm(d)
			if prev != nil && !x.Branch(x.strLess(prev, dt)) {
				return x.newErr("coins-validate", "denominations not sorted or duplicated")
			}
			prev = dt
		}
		return IfaceV{}
	}
	p.Intr["("+sdkTypes+".Coins).String"] = func(x *Exec, c *CallCtx) Value {
		return StrV{Atom: x.B.Fresh("coinsstr", smt.SStr)}
	}
	p.Intr[sdkTypes+".ValidateDenom"] = func(x *Exec, c *CallCtx) Value {
		if x.Branch(x.validDenom(c.Args[0].(StrV))) {
			return IfaceV{}
		}
		return x.newErr("invalid-denom", "")
	}

	// addresses: bech32 decode/encode as an uninterpreted pair
	p.Intr[sdkTypes+".AccAddressFromBech32"] = func(x *Exec, c *CallCtx) Value {
		s := c.Args[0].(StrV)
		ok, addr := x.bech32Decode(s)
		if x.Branch(ok) {
			return TupleV{SliceV{Atom: addr}, IfaceV{}}
		}
		return TupleV{SliceV{Nil: true}, x.newErr("bech32", "decoding bech32 failed")}
	}
	p.Intr[sdkTypes+".MustAccAddressFromBech32"] = func(x *Exec, c *CallCtx) Value {
		s := c.Args[0].(StrV)
		ok, addr := x.bech32Decode(s)
		if x.Branch(ok) {
			return SliceV{Atom: addr}
		}
		panic(goPanic{Msg: "MustAccAddressFromBech32: invalid address"})
	}
	p.Intr["("+sdkTypes+".AccAddress).String"] = func(x *Exec, c *CallCtx) Value {
		return x.bech32Encode(c.Args[0])
	}
	p.Intr["("+sdkTypes+".AccAddress).Equals"] = func(x *Exec, c *CallCtx) Value {
		a := c.Args[0]
		b := c.Args[1]
		if iv, ok := b.(IfaceV); ok {
			b = iv.V
		}
		return BoolV{x.bytesEq(a, b)}
	}
	p.Intr["("+sdkTypes+".AccAddress).Empty"] = func(x *Exec, c *CallCtx) Value {
		s := c.Args[0].(SliceV)
		if s.Atom != nil {
			return BoolV{x.B.Eq(x.atomLen(s.Atom), x.B.Int(0))}
		}
		return BoolV{x.B.Bool(s.Nil || s.Len == 0)}
	}
	p.Intr["("+sdkTypes+".AccAddress).Bytes"] = func(x *Exec, c *CallCtx) Value { return c.Args[0] }
	p.Intr["bytes.Equal"] = func(x *Exec, c *CallCtx) Value { return BoolV{x.bytesEq(c.Args[0], c.Args[1])} }
	p.Intr["bytes.Compare"] = func(x *Exec, c *CallCtx) Value {
		B := x.B
		a, b := x.bytesToString(c.Args[0].(SliceV)).(StrV), x.bytesToString(c.Args[1].(SliceV)).(StrV)
		if a.IsConst && b.IsConst {
			switch {
			case a.S < b.S:
				return IntV{B.Int(-1)}
			case a.S > b.S:
				return IntV{B.Int(1)}
			}
			return IntV{B.Int(0)}
		}
		ta, tb := x.strAtomTerm(a), x.strAtomTerm(b)
		if ta == nil || tb == nil {
			x.Unsupported("bytes.Compare on content bytes")
		}
		return IntV{B.Ite(B.Eq(ta, tb), B.Int(0), B.Ite(x.strLess(ta, tb), B.Int(-1), B.Int(1)))}
	}
}

// bech32Decode: ok(s) and addr(s); decode(encode(a)) = a is instantiated in bech32Encode.
// A decoded address is never empty (VerifyAddressFormat rejects empty addresses).
func (x *Exec) bech32Decode(s StrV) (*smt.Term, *smt.Term) {
	B := x.B
	t := x.strAtomTerm(s)
	if t == nil {
		x.Unsupported("bech32 decoding of a content string")
	}
	if s.IsConst && s.S == "" {
		return B.False, B.StrConst("")
	}
	ok := B.App("bech32_ok", smt.SBool, t)
	addr := B.App("bech32_addr", smt.SStr, t)
	if !x.lenAxiom[addr.ID] {
		x.lenAxiom[addr.ID] = true
		x.Assume(B.Implies(ok, B.And(B.Gt(x.atomLen(addr), B.Int(0)), B.Not(B.Eq(addr, B.StrConst(""))))), "decoded address non-empty")
	}
	return ok, addr
}

func (x *Exec) bech32Encode(a Value) Value {
	B := x.B
	sl, ok := a.(SliceV)
	if !ok {
		x.Unsupported("AccAddress.String on %T", a)
	}
	if sl.Atom == nil {
		if sl.Nil || sl.Len == 0 {
			return StrV{IsConst: true, S: ""}
		}
		x.Unsupported("bech32 encoding of a content byte slice")
	}
	s := B.App("bech32_enc", smt.SStr, sl.Atom)
	if !x.lenAxiom[s.ID] {
		x.lenAxiom[s.ID] = true
		empty := B.Eq(sl.Atom, B.StrConst(""))
		x.Assume(B.Ite(empty, B.Eq(s, B.StrConst("")),
			B.And(B.App("bech32_ok", smt.SBool, s), B.Eq(B.App("bech32_addr", smt.SStr, s), sl.Atom), B.Not(B.Eq(s, B.StrConst(""))))), "bech32 encode/decode")
	}
	return StrV{Atom: s}
}

var _ = types.Typ
