package sym

import (
	"go/token"
)

// sort.Strings and sort.Slice/SliceStable on the (short, concrete-length) slices the code
// under test sorts: an insertion sort whose comparisons are branches, so every outcome of
// the order is a path. Sorting is what makes iteration over a map deterministic, so it must
// be executed rather than left unsupported.
func registerSort(p *Program) {
	p.Intr["sort.Strings"] = func(x *Exec, c *CallCtx) Value {
		sl, ok := c.Args[0].(SliceV)
		if !ok || sl.Nil || sl.Arr == nil {
			return nil
		}
		arr := sl.Arr.Val.(ArrayV)
		e := append([]Value{}, arr.E...)
		less := func(a, b Value) bool {
			return x.BranchBool(x.stringBinop(token.LSS, a.(StrV), b.(StrV)))
		}
		for i := sl.Off + 1; i < sl.Off+sl.Len; i++ {
			for j := i; j > sl.Off && less(e[j], e[j-1]); j-- {
				e[j], e[j-1] = e[j-1], e[j]
			}
		}
		x.procWrite(sl.Arr)
		sl.Arr.Val = ArrayV{e}
		return nil
	}
	sortSlice := func(x *Exec, c *CallCtx) Value {
		sl, ok := unwrapIface(c.Args[0]).(SliceV)
		if !ok || sl.Nil || sl.Arr == nil {
			return nil
		}
		lessFn := c.Args[1]
		n := sl.Len
		// insertion sort on the real backing array: less(i, j) observes the current contents
		swap := func(i, j int) {
			arr := sl.Arr.Val.(ArrayV)
			e := append([]Value{}, arr.E...)
			e[sl.Off+i], e[sl.Off+j] = e[sl.Off+j], e[sl.Off+i]
			sl.Arr.Val = ArrayV{e}
		}
		less := func(i, j int) bool {
			r := x.invokeValue(lessFn, []Value{IntV{x.B.Int(int64(i))}, IntV{x.B.Int(int64(j))}}, nil)
			return x.BranchBool(r)
		}
		x.procWrite(sl.Arr)
		for i := 1; i < n; i++ {
			for j := i; j > 0 && less(j, j-1); j-- {
				swap(j, j-1)
			}
		}
		return nil
	}
	p.Intr["sort.Slice"] = sortSlice
	p.Intr["sort.SliceStable"] = sortSlice
}
