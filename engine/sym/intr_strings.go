package sym

import (
	"crypto/sha256"
	"fmt"
	"regexp"
	"regexp/syntax"
	"strings"

	"verif/engine/smt"
)

func (x *Exec) regexpOf(v Value) RegexpV {
	v = unwrapIface(v)
	if p, ok := v.(PtrV); ok {
		v = x.load(p)
	}
	r, ok := v.(RegexpV)
	if !ok {
		x.Unsupported("expected *regexp.Regexp, got %T", v)
	}
	return r
}

func patternName(p string) string {
	h := sha256.Sum256([]byte(p))
	return fmt.Sprintf("re_%x", h[:6])
}

// regexMatch decides (symbolically) whether the pattern matches somewhere in s.
func (x *Exec) regexMatch(pattern string, s StrV) *smt.Term {
	B := x.B
	if s.IsConst {
		return B.Bool(regexp.MustCompile(pattern).MatchString(s.S))
	}
	if s.Atom != nil {
		t := B.App(patternName(pattern), smt.SBool, s.Atom)
		x.Summ["regex-predicate:"+pattern]++
		// lemma (C14_BasketDenom): a formatted basket denom is accepted by the basket denom regex
		if strings.HasPrefix(pattern, "^eco.") {
			for _, d := range x.formattedBasketDenoms {
				if d == s.Atom {
					return B.True
				}
			}
		}
		// the empty string: decide concretely
		if !x.lenAxiom[t.ID] {
			x.lenAxiom[t.ID] = true
			x.Assume(B.Implies(B.Eq(s.Atom, B.StrConst("")), B.Eq(t, B.Bool(regexp.MustCompile(pattern).MatchString("")))), "regex on empty string")
		}
		// every string constant of the run: the predicate is the regex engine's own verdict
		if x.regexSeen == nil {
			x.regexSeen = map[string]*regexp.Regexp{}
		}
		if _, ok := x.regexSeen[pattern]; !ok {
			re := regexp.MustCompile(pattern)
			x.regexSeen[pattern] = re
			for _, cs := range x.B.ConstL[:x.constDone] {
				x.Assume(B.Eq(B.App(patternName(pattern), smt.SBool, x.B.Consts[cs]), B.Bool(re.MatchString(cs))), "regex on a string constant")
			}
		}
		return t
	}
	return x.nfaMatch(pattern, s.Bytes)
}

func (x *Exec) nfaMatch(pattern string, bs []*smt.Term) *smt.Term {
	B := x.B
	re, err := syntax.Parse(pattern, syntax.Perl)
	if err != nil {
		x.Unsupported("regexp parse: %v", err)
	}
	prog, err := syntax.Compile(re.Simplify())
	if err != nil {
		x.Unsupported("regexp compile: %v", err)
	}
	n := len(bs)
	np := len(prog.Inst)
	matchAny := B.False
	active := make([]*smt.Term, np)
	for i := range active {
		active[i] = B.False
	}
	// closure at position pos: propagate along epsilon edges (order: iterate to fixpoint;
	// the instruction graph may have cycles, so iterate np times at most)
	closure := func(act []*smt.Term, pos int) {
		for iter := 0; iter < np+1; iter++ {
			changed := false
			for pc := 0; pc < np; pc++ {
				if act[pc].IsFalse() {
					continue
				}
				in := &prog.Inst[pc]
				add := func(to uint32, c *smt.Term) {
					nt := B.Or(act[to], c)
					if nt != act[to] {
						act[to] = nt
						changed = true
					}
				}
				switch in.Op {
				case syntax.InstAlt, syntax.InstAltMatch:
					add(in.Out, act[pc])
					add(in.Arg, act[pc])
				case syntax.InstCapture, syntax.InstNop:
					add(in.Out, act[pc])
				case syntax.InstEmptyWidth:
					ok := true
					op := syntax.EmptyOp(in.Arg)
					if op&syntax.EmptyBeginText != 0 && pos != 0 {
						ok = false
					}
					if op&syntax.EmptyEndText != 0 && pos != n {
						ok = false
					}
					if op&(syntax.EmptyBeginLine|syntax.EmptyEndLine|syntax.EmptyWordBoundary|syntax.EmptyNoWordBoundary) != 0 {
						x.Unsupported("regexp line/word assertions")
					}
					if ok {
						add(in.Out, act[pc])
					}
				}
			}
			if !changed {
				break
			}
		}
	}
	runeMatch := func(in *syntax.Inst, b *smt.Term) *smt.Term {
		switch in.Op {
		case syntax.InstRuneAny:
			return B.True
		case syntax.InstRuneAnyNotNL:
			return B.Not(B.Eq(b, B.Int('\n')))
		}
		rs := in.Rune
		if len(rs) == 1 {
			r := B.Eq(b, B.Int(int64(rs[0])))
			if syntax.Flags(in.Arg)&syntax.FoldCase != 0 {
				x.Unsupported("regexp case folding")
			}
			return r
		}
		r := B.False
		for i := 0; i+1 < len(rs); i += 2 {
			lo, hi := rs[i], rs[i+1]
			if lo > 255 {
				continue
			}
			if hi > 255 {
				hi = 255
			}
			r = B.Or(r, B.And(B.Le(B.Int(int64(lo)), b), B.Le(b, B.Int(int64(hi)))))
		}
		return r
	}
	for pos := 0; pos <= n; pos++ {
		// unanchored search: a match may start at any position
		active[prog.Start] = B.True
		closure(active, pos)
		for pc := 0; pc < np; pc++ {
			if prog.Inst[pc].Op == syntax.InstMatch {
				matchAny = B.Or(matchAny, active[pc])
			}
		}
		if pos == n {
			break
		}
		// bytes >= 0x80 are multi-byte UTF-8: only ASCII content strings are modelled
		x.asciiOnly(bs[pos])
		next := make([]*smt.Term, np)
		for i := range next {
			next[i] = B.False
		}
		for pc := 0; pc < np; pc++ {
			if active[pc].IsFalse() {
				continue
			}
			in := &prog.Inst[pc]
			switch in.Op {
			case syntax.InstRune, syntax.InstRune1, syntax.InstRuneAny, syntax.InstRuneAnyNotNL:
				next[in.Out] = B.Or(next[in.Out], B.And(active[pc], runeMatch(in, bs[pos])))
			}
		}
		active = next
	}
	return matchAny
}

func registerStringsPkg(p *Program) {
	p.Intr["regexp.MustCompile"] = func(x *Exec, c *CallCtx) Value {
		pat := x.constStr(c.Args[0], "regexp pattern")
		if _, err := regexp.Compile(pat); err != nil {
			panic(goPanic{Msg: "regexp: " + err.Error()})
		}
		return PtrV{Obj: x.newObj(RegexpV{Pattern: pat}, "regexp")}
	}
	p.Intr["(*regexp.Regexp).MatchString"] = func(x *Exec, c *CallCtx) Value {
		return BoolV{x.regexMatch(x.regexpOf(c.Args[0]).Pattern, c.Args[1].(StrV))}
	}
	p.Intr["(*regexp.Regexp).FindStringSubmatch"] = func(x *Exec, c *CallCtx) Value {
		r := x.regexpOf(c.Args[0])
		s := c.Args[1].(StrV)
		if s.IsConst {
			m := regexp.MustCompile(r.Pattern).FindStringSubmatch(s.S)
			if m == nil {
				return SliceV{Nil: true}
			}
			es := make([]Value, len(m))
			for i := range m {
				es[i] = StrV{IsConst: true, S: m[i]}
			}
			return x.mkSlice(es)
		}
		if x.Branch(x.regexMatch(r.Pattern, s)) {
			// non-nil; the submatches themselves are not modelled (callers only test for nil)
			return x.mkSlice([]Value{OpaqueV{Kind: "submatch"}})
		}
		return SliceV{Nil: true}
	}
	p.Intr["(*regexp.Regexp).String"] = func(x *Exec, c *CallCtx) Value {
		return StrV{IsConst: true, S: x.regexpOf(c.Args[0]).Pattern}
	}
	p.Intr["strings.ToLower"] = func(x *Exec, c *CallCtx) Value { return x.toLower(c.Args[0].(StrV)) }
	p.Intr["strings.HasPrefix"] = func(x *Exec, c *CallCtx) Value {
		B := x.B
		s, pre := c.Args[0].(StrV), c.Args[1].(StrV)
		if s.Atom != nil || pre.Atom != nil {
			return BoolV{x.strPrefix(x.strAtomTerm(s), x.strAtomTerm(pre))}
		}
		sb, _ := x.contentOf(s)
		pb, _ := x.contentOf(pre)
		if len(pb) > len(sb) {
			return BoolV{B.False}
		}
		r := B.True
		for i := range pb {
			r = B.And(r, B.Eq(sb[i], pb[i]))
		}
		return BoolV{r}
	}
	p.Intr["strings.TrimSpace"] = func(x *Exec, c *CallCtx) Value {
		s := c.Args[0].(StrV)
		if s.IsConst {
			return StrV{IsConst: true, S: strings.TrimSpace(s.S)}
		}
		if s.Atom != nil {
			return StrV{Atom: x.B.App("trimspace", smt.SStr, s.Atom)}
		}
		x.Unsupported("strings.TrimSpace on a content string")
		return nil
	}
	p.Intr["strings.Join"] = func(x *Exec, c *CallCtx) Value {
		es := x.sliceElems(c.Args[0].(SliceV))
		sep := c.Args[1].(StrV)
		out := StrV{IsConst: true}
		for i, e := range es {
			if i > 0 {
				out = x.stringConcat(out, sep)
			}
			out = x.stringConcat(out, e.(StrV))
		}
		return out
	}
	p.Intr["strings.Contains"] = func(x *Exec, c *CallCtx) Value {
		s, sub := c.Args[0].(StrV), c.Args[1].(StrV)
		if s.IsConst && sub.IsConst {
			return BoolV{x.B.Bool(strings.Contains(s.S, sub.S))}
		}
		ta, tb := x.strAtomTerm(s), x.strAtomTerm(sub)
		if ta == nil || tb == nil {
			x.Unsupported("strings.Contains on content strings")
		}
		return BoolV{x.B.App("str_contains", smt.SBool, ta, tb)}
	}
	// strings.Builder: the buffer lives in field 1 ([]byte)
	sbBuf := func(x *Exec, p Value) (PtrV, []Value) {
		pv := p.(PtrV)
		sv := x.load(pv).(StructV)
		return pv, x.sliceElems(sv.F[1].(SliceV))
	}
	sbSet := func(x *Exec, pv PtrV, es []Value) {
		sv := x.load(pv).(StructV)
		f := make([]Value, len(sv.F))
		copy(f, sv.F)
		if len(es) == 0 {
			f[1] = SliceV{Nil: true}
		} else {
			f[1] = x.mkSlice(es)
		}
		x.store(pv, StructV{f})
	}
	p.Intr["(*strings.Builder).WriteRune"] = func(x *Exec, c *CallCtx) Value {
		pv, es := sbBuf(x, c.Args[0])
		r := c.Args[1].(IntV)
		if cv, ok := r.T.ConstInt64(); ok && cv >= 0x80 {
			for _, b := range []byte(string(rune(cv))) {
				es = append(es, IntV{x.B.Int(int64(b))})
			}
			sbSet(x, pv, es)
			return TupleV{IntV{x.B.Int(int64(len(string(rune(cv)))))}, IfaceV{}}
		}
		x.asciiOnly(r.T)
		sbSet(x, pv, append(append([]Value{}, es...), r))
		return TupleV{IntV{x.B.Int(1)}, IfaceV{}}
	}
	p.Intr["(*strings.Builder).WriteByte"] = func(x *Exec, c *CallCtx) Value {
		pv, es := sbBuf(x, c.Args[0])
		sbSet(x, pv, append(append([]Value{}, es...), c.Args[1]))
		return IfaceV{}
	}
	p.Intr["(*strings.Builder).WriteString"] = func(x *Exec, c *CallCtx) Value {
		pv, es := sbBuf(x, c.Args[0])
		s := c.Args[1].(StrV)
		bs, ok := x.contentOf(s)
		if !ok {
			x.Unsupported("strings.Builder.WriteString of an opaque string")
		}
		out := append([]Value{}, es...)
		for _, b := range bs {
			out = append(out, IntV{b})
		}
		sbSet(x, pv, out)
		return TupleV{IntV{x.B.Int(int64(len(bs)))}, IfaceV{}}
	}
	p.Intr["(*strings.Builder).String"] = func(x *Exec, c *CallCtx) Value {
		_, es := sbBuf(x, c.Args[0])
		bs := make([]*smt.Term, len(es))
		for i, e := range es {
			bs[i] = e.(IntV).T
		}
		return x.normStr(bs)
	}
	p.Intr["(*strings.Builder).Len"] = func(x *Exec, c *CallCtx) Value {
		_, es := sbBuf(x, c.Args[0])
		return IntV{x.B.Int(int64(len(es)))}
	}
	ascii := func(f func(B *smt.Builder, r *smt.Term) *smt.Term) Intrinsic {
		return func(x *Exec, c *CallCtx) Value {
			r := c.Args[0].(IntV).T
			x.asciiOnly(r)
			return BoolV{f(x.B, r)}
		}
	}
	rng := func(B *smt.Builder, r *smt.Term, lo, hi byte) *smt.Term {
		return B.And(B.Le(B.Int(int64(lo)), r), B.Le(r, B.Int(int64(hi))))
	}
	p.Intr["unicode.IsNumber"] = ascii(func(B *smt.Builder, r *smt.Term) *smt.Term { return rng(B, r, '0', '9') })
	p.Intr["unicode.IsDigit"] = p.Intr["unicode.IsNumber"]
	p.Intr["unicode.IsUpper"] = ascii(func(B *smt.Builder, r *smt.Term) *smt.Term { return rng(B, r, 'A', 'Z') })
	p.Intr["unicode.IsLower"] = ascii(func(B *smt.Builder, r *smt.Term) *smt.Term { return rng(B, r, 'a', 'z') })
	p.Intr["unicode.IsLetter"] = ascii(func(B *smt.Builder, r *smt.Term) *smt.Term {
		return B.Or(rng(B, r, 'A', 'Z'), rng(B, r, 'a', 'z'))
	})
	p.Intr["unicode.IsSpace"] = ascii(func(B *smt.Builder, r *smt.Term) *smt.Term {
		return B.Or(rng(B, r, 9, 13), B.Eq(r, B.Int(' ')))
	})
}

func (x *Exec) toLower(s StrV) Value {
	B := x.B
	if s.IsConst {
		return StrV{IsConst: true, S: strings.ToLower(s.S)}
	}
	if s.Atom != nil {
		t := B.App("tolower", smt.SStr, s.Atom)
		if !x.lenAxiom[t.ID] {
			x.lenAxiom[t.ID] = true
			x.Assume(B.And(B.Eq(B.App("tolower", smt.SStr, t), t), B.Eq(x.atomLen(t), x.atomLen(s.Atom))), "tolower idempotent")
		}
		return StrV{Atom: t}
	}
	out := make([]*smt.Term, len(s.Bytes))
	for i, b := range s.Bytes {
		x.asciiOnly(b)
		up := B.And(B.Le(B.Int('A'), b), B.Le(b, B.Int('Z')))
		out[i] = B.Ite(up, B.Add(b, B.Int(32)), b)
	}
	return StrV{Bytes: out}
}
