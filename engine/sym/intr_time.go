package sym

import (
	"fmt"
	"math/big"

	"verif/engine/smt"
)

func bigInt(v int64) *big.Int { return big.NewInt(v) }

const (
	minTimeSec = -62135596800 // 0001-01-01T00:00:00Z
	maxTimeSec = 253402300799 // 9999-12-31T23:59:59Z
)

// nondetTime is an arbitrary instant in the protobuf timestamp range (years 1..9999).
func (x *Exec) nondetTime(label string) Value {
	s := x.boundedVar("nd_"+label+".sec", bigInt(minTimeSec), bigInt(maxTimeSec), "timestamp range")
	n := x.boundedVar("nd_"+label+".nsec", bigInt(0), bigInt(999999999), "nanos range")
	x.addNondet(label, "time", s, n)
	return TimeV{Sec: s, Nsec: n}
}

func (x *Exec) timeOf(v Value) TimeV {
	v = unwrapIface(v)
	if p, ok := v.(PtrV); ok {
		v = x.load(p)
	}
	t, ok := v.(TimeV)
	if !ok {
		x.Unsupported("expected time.Time, got %T", v)
	}
	return t
}

func (x *Exec) timeLt(a, b TimeV) *smt.Term {
	B := x.B
	return B.Or(B.Lt(a.Sec, b.Sec), B.And(B.Eq(a.Sec, b.Sec), B.Lt(a.Nsec, b.Nsec)))
}

func (x *Exec) timeEq(a, b TimeV) *smt.Term {
	return x.B.And(x.B.Eq(a.Sec, b.Sec), x.B.Eq(a.Nsec, b.Nsec))
}

// totalNanos is the instant as nanoseconds since the epoch (unbounded integer).
func (x *Exec) totalNanos(t TimeV) *smt.Term {
	return x.B.Add(x.B.Mul(t.Sec, x.B.Int(1000000000)), t.Nsec)
}

func (x *Exec) fromTotalNanos(n *smt.Term) TimeV {
	B := x.B
	e9 := B.Int(1000000000)
	return TimeV{Sec: B.Div(n, e9), Nsec: B.Mod(n, e9)}
}

// civilFromDays: days since 1970-01-01 -> (year, month, day), proleptic Gregorian
// (Howard Hinnant's algorithm, all divisions by constants).
func (x *Exec) civilFromDays(z *smt.Term) (y, m, d *smt.Term) {
	B := x.B
	I := B.Int
	z = B.Add(z, I(719468))
	era := B.Div(z, I(146097)) // floor division handles negatives
	doe := B.Sub(z, B.Mul(era, I(146097)))
	yoe := B.Div(B.Sub(B.Sub(B.Add(doe, B.Neg(B.Div(doe, I(1460)))), B.Neg(B.Div(doe, I(36524)))), B.Div(doe, I(146096))), I(365))
	yy := B.Add(yoe, B.Mul(era, I(400)))
	doy := B.Sub(doe, B.Sub(B.Add(B.Mul(I(365), yoe), B.Div(yoe, I(4))), B.Div(yoe, I(100))))
	mp := B.Div(B.Add(B.Mul(I(5), doy), I(2)), I(153))
	d = B.Add(B.Sub(doy, B.Div(B.Add(B.Mul(I(153), mp), I(2)), I(5))), I(1))
	m = B.Ite(B.Lt(mp, I(10)), B.Add(mp, I(3)), B.Sub(mp, I(9)))
	y = B.Ite(B.Le(m, I(2)), B.Add(yy, I(1)), yy)
	return
}

// daysFromCivil: (year, month, day) -> days since 1970-01-01.
func (x *Exec) daysFromCivil(y, m, d *smt.Term) *smt.Term {
	B := x.B
	I := B.Int
	y = B.Ite(B.Le(m, I(2)), B.Sub(y, I(1)), y)
	era := B.Div(y, I(400))
	yoe := B.Sub(y, B.Mul(era, I(400)))
	mm := B.Ite(B.Gt(m, I(2)), B.Sub(m, I(3)), B.Add(m, I(9)))
	doy := B.Add(B.Div(B.Add(B.Mul(I(153), mm), I(2)), I(5)), B.Sub(d, I(1)))
	doe := B.Add(B.Sub(B.Add(B.Mul(yoe, I(365)), B.Div(yoe, I(4))), B.Div(yoe, I(100))), doy)
	return B.Sub(B.Add(B.Mul(era, I(146097)), doe), I(719468))
}

func registerTime(p *Program) {
	p.Interpret["google.golang.org/protobuf/types/known/timestamppb"] = true
	p.Interpret["google.golang.org/protobuf/types/known/durationpb"] = true
	p.Interpret["github.com/cosmos/gogoproto/types"] = true
	T := "(time.Time)."
	cmp := func(f func(x *Exec, a, b TimeV) *smt.Term) Intrinsic {
		return func(x *Exec, c *CallCtx) Value {
			return BoolV{f(x, x.timeOf(c.Args[0]), x.timeOf(c.Args[1]))}
		}
	}
	p.Intr[T+"After"] = cmp(func(x *Exec, a, b TimeV) *smt.Term { return x.timeLt(b, a) })
	p.Intr[T+"Before"] = cmp(func(x *Exec, a, b TimeV) *smt.Term { return x.timeLt(a, b) })
	p.Intr[T+"Equal"] = cmp(func(x *Exec, a, b TimeV) *smt.Term { return x.timeEq(a, b) })
	p.Intr[T+"Compare"] = func(x *Exec, c *CallCtx) Value {
		a, b := x.timeOf(c.Args[0]), x.timeOf(c.Args[1])
		return IntV{x.B.Ite(x.timeLt(a, b), x.B.Int(-1), x.B.Ite(x.timeEq(a, b), x.B.Int(0), x.B.Int(1)))}
	}
	id := func(x *Exec, c *CallCtx) Value { return x.timeOf(c.Args[0]) }
	p.Intr[T+"UTC"] = id
	p.Intr[T+"Local"] = id
	p.Intr[T+"Round"] = func(x *Exec, c *CallCtx) Value {
		if d, ok := c.Args[1].(IntV).T.ConstInt64(); ok && d <= 1 {
			return x.timeOf(c.Args[0])
		}
		x.Unsupported("time.Round")
		return nil
	}
	p.Intr[T+"IsZero"] = func(x *Exec, c *CallCtx) Value {
		t := x.timeOf(c.Args[0])
		return BoolV{x.B.And(x.B.Eq(t.Sec, x.B.Int(minTimeSec)), x.B.Eq(t.Nsec, x.B.Int(0)))}
	}
	p.Intr[T+"Unix"] = func(x *Exec, c *CallCtx) Value { return IntV{x.timeOf(c.Args[0]).Sec} }
	p.Intr[T+"Nanosecond"] = func(x *Exec, c *CallCtx) Value { return IntV{x.timeOf(c.Args[0]).Nsec} }
	p.Intr[T+"UnixNano"] = func(x *Exec, c *CallCtx) Value {
		return IntV{x.B.Wrap(x.totalNanos(x.timeOf(c.Args[0])), 64, true)}
	}
	p.Intr[T+"Add"] = func(x *Exec, c *CallCtx) Value {
		t := x.timeOf(c.Args[0])
		d := c.Args[1].(IntV).T
		// time.Time.Add saturates only beyond year ~292e9; within the modelled range it is exact
		return x.fromTotalNanos(x.B.Add(x.totalNanos(t), d))
	}
	p.Intr[T+"Sub"] = func(x *Exec, c *CallCtx) Value {
		B := x.B
		a, b := x.timeOf(c.Args[0]), x.timeOf(c.Args[1])
		d := B.Sub(x.totalNanos(a), x.totalNanos(b))
		// saturating
		lo, hi := smt.TypeRange(64, true)
		return IntV{B.Ite(B.Lt(d, B.BigInt(lo)), B.BigInt(lo), B.Ite(B.Gt(d, B.BigInt(hi)), B.BigInt(hi), d))}
	}
	p.Intr[T+"Year"] = func(x *Exec, c *CallCtx) Value {
		t := x.timeOf(c.Args[0])
		y, _, _ := x.civilFromDays(x.B.Div(t.Sec, x.B.Int(86400)))
		return IntV{y}
	}
	// Date/Month/Day: month and day are named with their ranges (facts of the calendar
	// algorithm), so that formatting them needs no case split
	civil := func(x *Exec, c *CallCtx) (y, m, d *smt.Term) {
		t := x.timeOf(c.Args[0])
		yy, mm, dd := x.civilFromDays(x.B.Div(t.Sec, x.B.Int(86400)))
		x.civilN++
		m = x.B.Var(fmt.Sprintf("civil_month_%d", x.civilN), smt.SInt)
		d = x.B.Var(fmt.Sprintf("civil_day_%d", x.civilN), smt.SInt)
		x.Assume(x.B.And(x.B.Eq(m, mm), x.B.Eq(d, dd)), "calendar month and day")
		x.setBounds(m, 1, 12, "calendar month")
		x.setBounds(d, 1, 31, "calendar day")
		if t.Sec.Lo != nil && t.Sec.Hi != nil && t.Sec.Lo.Cmp(bigInt(minTimeSec)) >= 0 && t.Sec.Hi.Cmp(bigInt(maxTimeSec)) <= 0 {
			// instants within the protobuf timestamp range lie in the years 1..9999
			y = x.B.Var(fmt.Sprintf("civil_year_%d", x.civilN), smt.SInt)
			x.Assume(x.B.Eq(y, yy), "calendar year")
			x.setBounds(y, 1, 9999, "calendar year of an instant in the timestamp range")
			return y, m, d
		}
		return yy, m, d
	}
	p.Intr[T+"Date"] = func(x *Exec, c *CallCtx) Value {
		y, m, d := civil(x, c)
		return TupleV{IntV{y}, IntV{m}, IntV{d}}
	}
	p.Intr[T+"Month"] = func(x *Exec, c *CallCtx) Value {
		_, m, _ := civil(x, c)
		return IntV{m}
	}
	p.Intr[T+"Day"] = func(x *Exec, c *CallCtx) Value {
		_, _, d := civil(x, c)
		return IntV{d}
	}
	p.Intr[T+"String"] = func(x *Exec, c *CallCtx) Value {
		t := x.timeOf(c.Args[0])
		return StrV{Atom: x.B.App("time_string", smt.SStr, t.Sec, t.Nsec)}
	}
	p.Intr[T+"Format"] = func(x *Exec, c *CallCtx) Value {
		t := x.timeOf(c.Args[0])
		layout := x.constStr(c.Args[1], "time layout")
		if layout != "20060102" {
			return StrV{Atom: x.B.App("time_format_"+layout, smt.SStr, t.Sec, t.Nsec)}
		}
		B := x.B
		y, m, d := x.civilFromDays(B.Div(t.Sec, B.Int(86400)))
		// years 1..9999 -> 4 digits, zero padded
		dig := func(v *smt.Term, pow int64) *smt.Term {
			return B.Add(B.Mod(B.Div(v, B.Int(pow)), B.Int(10)), B.Int('0'))
		}
		bs := []*smt.Term{dig(y, 1000), dig(y, 100), dig(y, 10), dig(y, 1), dig(m, 10), dig(m, 1), dig(d, 10), dig(d, 1)}
		return x.normStr(bs)
	}
	p.Intr["time.Unix"] = func(x *Exec, c *CallCtx) Value {
		B := x.B
		s := c.Args[0].(IntV).T
		n := c.Args[1].(IntV).T
		e9 := B.Int(1000000000)
		if n.Lo != nil && n.Hi != nil && n.Lo.Sign() >= 0 && n.Hi.Cmp(bigInt(999999999)) <= 0 {
			return TimeV{Sec: s, Nsec: n}
		}
		return TimeV{Sec: B.Add(s, B.Div(n, e9)), Nsec: B.Mod(n, e9)}
	}
	p.Intr["time.Date"] = func(x *Exec, c *CallCtx) Value {
		B := x.B
		a := c.Args
		get := func(i int) *smt.Term { return a[i].(IntV).T }
		mo, ok1 := get(1).ConstInt64()
		dd, ok2 := get(2).ConstInt64()
		if !ok1 || !ok2 || mo < 1 || mo > 12 || dd < 1 || dd > 28 {
			x.Unsupported("time.Date with a symbolic or unusual month/day")
		}
		days := x.daysFromCivil(get(0), B.Int(mo), B.Int(dd))
		sec := B.Add(B.Add(B.Mul(days, B.Int(86400)), B.Mul(get(3), B.Int(3600))), B.Add(B.Mul(get(4), B.Int(60)), get(5)))
		return x.fromTotalNanos(B.Add(B.Mul(sec, B.Int(1000000000)), get(6)))
	}
	p.Intr["time.Now"] = func(x *Exec, c *CallCtx) Value {
		x.Effects = append(x.Effects, Effect{Kind: "wallclock", Name: "time.Now"})
		return x.wallClock()
	}
	p.Intr["time.Since"] = func(x *Exec, c *CallCtx) Value {
		x.Effects = append(x.Effects, Effect{Kind: "wallclock", Name: "time.Since"})
		x.wallN++
		return IntV{x.B.Var("wallclock_since", smt.SInt)}
	}
	p.Intr["(time.Duration).String"] = func(x *Exec, c *CallCtx) Value {
		return StrV{Atom: x.B.App("duration_string", smt.SStr, c.Args[0].(IntV).T)}
	}
}
