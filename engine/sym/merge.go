package sym

import (
	"fmt"
	"time"

	"golang.org/x/tools/go/ssa"

	"verif/engine/smt"
)

// mergeState is active while a pure callee is summarised by exploring all of its paths
// locally and merging the results into one ite term (no solver calls, no path forks).
type mergeState struct {
	prefix []bool
	pos    int
	trace  []bool
	conds  []*smt.Term
	objLim int
}

// DefaultMergeFns are small pure functions of regen-ledger whose branches would otherwise
// multiply the paths of every caller. They are still executed from the SSA of /repo.
var DefaultMergeFns = []string{
	"(" + RegenPrefix + "types/v2/math.Dec).NumDecimalPlaces",
	"(" + RegenPrefix + "types/v2/math.Dec).IsNegative",
	"(" + RegenPrefix + "types/v2/math.Dec).IsPositive",
	"(" + RegenPrefix + "types/v2/math.Dec).IsZero",
	"(" + RegenPrefix + "types/v2/math.Dec).IsFinite",
}

func (x *Exec) mergeCall(fn *ssa.Function, args []Value, bind []Value) Value {
	if x.merge != nil {
		// nested: just inline into the enclosing merge
		return x.CallFunction(fn, args, bind)
	}
	type outcome struct {
		cond *smt.Term
		val  Value
	}
	var outs []outcome
	var panicCond *smt.Term = x.B.False
	var panicMsg string
	work := [][]bool{nil}
	limit := x.Cfg.Bound("merge_paths", 20000)
	n := 0
	for len(work) > 0 {
		pre := work[len(work)-1]
		work = work[:len(work)-1]
		ms := &mergeState{prefix: pre, objLim: x.objN}
		x.merge = ms
		var val Value
		panicked := false
		func() {
			defer func() {
				x.merge = nil
				if r := recover(); r != nil {
					gp, ok := r.(goPanic)
					if !ok {
						panic(r)
					}
					panicked = true
					panicMsg = gp.Msg
				}
			}()
			val = x.CallFunction(fn, args, bind)
		}()
		cond := x.B.And(ms.conds...)
		if panicked {
			panicCond = x.B.Or(panicCond, cond)
		} else {
			outs = append(outs, outcome{cond, val})
		}
		for i := len(pre); i < len(ms.trace); i++ {
			np := make([]bool, i+1)
			copy(np, ms.trace[:i])
			np[i] = !ms.trace[i]
			work = append(work, np)
		}
		n++
		if n%200 == 0 {
			x.Summ["merged-paths"] += 0
			x.checkPathBudgetMerge(fn.String(), n)
		}
		if n > limit {
			x.Unsupported("merged callee %s has more than %d paths", fn.String(), limit)
		}
	}
	x.Summ["merged-paths"] += n
	x.Summ["merged-paths:"+fn.String()] += n
	if !panicCond.IsFalse() {
		if x.Branch(panicCond) {
			panic(goPanic{Msg: panicMsg})
		}
	}
	if len(outs) == 0 {
		x.Unsupported("merged callee %s has no normal return", fn.String())
	}
	// boolean results: disjunction of the conditions of the true outcomes is smaller than an ite chain
	if _, ok := outs[0].val.(BoolV); ok {
		r := x.B.False
		for _, o := range outs {
			r = x.B.Or(r, x.B.And(o.cond, o.val.(BoolV).T))
		}
		return BoolV{r}
	}
	res := outs[len(outs)-1].val
	for i := len(outs) - 2; i >= 0; i-- {
		res = x.iteValue(outs[i].cond, outs[i].val, res)
	}
	return res
}

func (x *Exec) bufContent(b BigV) BufContent {
	if b.Buf == nil {
		return BufContent{Mag: x.B.Int(0), V: x.B.RealInt(0), E: x.B.Int(0)}
	}
	return b.Buf.Val.(BufContent)
}

func (x *Exec) iteValue(c *smt.Term, a, b Value) Value {
	B := x.B
	switch av := a.(type) {
	case IntV:
		return IntV{B.Ite(c, av.T, b.(IntV).T)}
	case BoolV:
		return BoolV{B.Ite(c, av.T, b.(BoolV).T)}
	case RealV:
		return RealV{B.Ite(c, av.T, b.(RealV).T)}
	case TupleV:
		bv := b.(TupleV)
		out := make(TupleV, len(av))
		for i := range av {
			out[i] = x.iteValue(c, av[i], bv[i])
		}
		return out
	case StrV:
		bv := b.(StrV)
		ta, tb := x.strAtomTerm(av), x.strAtomTerm(bv)
		if ta != nil && tb != nil {
			if ta == tb {
				return av
			}
			return StrV{Atom: B.Ite(c, ta, tb)}
		}
	case nil:
		if b == nil {
			return nil
		}
	case PtrV:
		if bv, ok := b.(PtrV); ok && av.Obj == nil && bv.Obj == nil {
			return av
		}
	case SdkIntV:
		if bv, ok := b.(SdkIntV); ok && av.Nil == bv.Nil {
			if av.Nil {
				return av
			}
			return SdkIntV{T: B.Ite(c, av.T, bv.T)}
		}
	case StructV:
		if bv, ok := b.(StructV); ok && len(av.F) == len(bv.F) {
			f := make([]Value, len(av.F))
			for i := range f {
				f[i] = x.iteValue(c, av.F[i], bv.F[i])
			}
			return StructV{f}
		}
	case BigV:
		if bv, ok := b.(BigV); ok {
			ca, cb := x.bufContent(av), x.bufContent(bv)
			var content BufContent
			if ca.V != nil && cb.V != nil {
				content = BufContent{V: B.Ite(c, ca.V, cb.V), E: B.Ite(c, ca.E, cb.E)}
				if ca.Mag != nil && cb.Mag != nil {
					content.Mag = B.Ite(c, ca.Mag, cb.Mag)
				}
			} else {
				content = BufContent{Mag: B.Ite(c, x.bufMag(av), x.bufMag(bv))}
			}
			return BigV{Neg: B.Ite(c, av.Neg, bv.Neg), Buf: x.newObj(content, "mergedbuf")}
		}
	case TimeV:
		if bv, ok := b.(TimeV); ok {
			return TimeV{Sec: B.Ite(c, av.Sec, bv.Sec), Nsec: B.Ite(c, av.Nsec, bv.Nsec)}
		}
	case SliceV:
		if bv, ok := b.(SliceV); ok && av.Nil && bv.Nil {
			return av
		}
	}
	// errors: nil / ErrV / CondErrV in any combination
	if ea, ok := x.errCond(a); ok {
		if eb, ok := x.errCond(b); ok {
			r := CondErrV{Cond: B.Ite(c, ea.Cond, eb.Cond), E: ea.E}
			if ea.Cond.IsFalse() {
				r.E = eb.E
			}
			r.Mixed = ea.Mixed || eb.Mixed || (!ea.Cond.IsFalse() && !eb.Cond.IsFalse() && ea.E.Root != eb.E.Root)
			if r.Cond.IsFalse() {
				return IfaceV{}
			}
			return r
		}
	}
	x.Unsupported("cannot merge results of type %T and %T", a, b)
	return nil
}

// mergeBranch is Branch while merging: both sides are taken (in separate local runs).
func (x *Exec) mergeBranch(c *smt.Term) bool {
	ms := x.merge
	var d bool
	if ms.pos < len(ms.prefix) {
		d = ms.prefix[ms.pos]
	} else {
		d = true
	}
	ms.pos++
	ms.trace = append(ms.trace, d)
	if d {
		ms.conds = append(ms.conds, c)
	} else {
		ms.conds = append(ms.conds, x.B.Not(c))
	}
	return d
}

// AssumeLocal is an assumption that only holds on the current branch: inside a merged
// callee it becomes part of that branch's condition instead of a global fact.
func (x *Exec) AssumeLocal(c *smt.Term, label string) {
	if x.merge != nil {
		x.merge.conds = append(x.merge.conds, c)
		return
	}
	x.Assume(c, label)
}

// errCond views nil / ErrV / CondErrV uniformly.
func (x *Exec) errCond(v Value) (CondErrV, bool) {
	switch u := v.(type) {
	case CondErrV:
		return u, true
	case ErrV:
		return CondErrV{Cond: x.B.True, E: u}, true
	case IfaceV:
		if u.T == nil && u.V == nil {
			return CondErrV{Cond: x.B.False}, true
		}
		if e, ok := u.V.(ErrV); ok {
			return CondErrV{Cond: x.B.True, E: e}, true
		}
	case nil:
		return CondErrV{Cond: x.B.False}, true
	}
	return CondErrV{}, false
}

// concErr decides a symbolic error (forking if both are possible).
func (x *Exec) concErr(v Value) Value {
	ce, ok := v.(CondErrV)
	if !ok {
		return v
	}
	if x.Branch(ce.Cond) {
		if ce.Mixed {
			e := ce.E
			e.Root = ""
			return e
		}
		return ce.E
	}
	return IfaceV{}
}

func (x *Exec) checkPathBudgetMerge(fn string, n int) {
	if x.Cfg.PathBudgetS > 0 && time.Since(x.started).Seconds() > float64(x.Cfg.PathBudgetS) {
		x.exit("unwind", fmt.Sprintf("path time budget exhausted while merging %s (%d local paths so far)", fn, n))
	}
}
