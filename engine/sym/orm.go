package sym

import (
	"fmt"
	"go/types"
	"os"
	"path/filepath"
	"regexp"
	"strings"

	"golang.org/x/tools/go/ssa"

	"verif/engine/smt"
)

// ---- table metadata, read from /repo/proto on every run

type IndexMeta struct {
	ID     int
	Fields []string // proto field names
	Unique bool
}

type TableMeta struct {
	Name      string // message name
	ProtoPkg  string // e.g. regen.ecocredit.v1
	PK        []string
	AutoInc   bool
	Singleton bool
	Indexes   []IndexMeta
	Fields    []string // proto field names in declaration order
}

func camel(s string) string {
	parts := strings.Split(s, "_")
	for i, p := range parts {
		if p == "" {
			continue
		}
		parts[i] = strings.ToUpper(p[:1]) + p[1:]
	}
	return strings.Join(parts, "")
}

var (
	reMsg    = regexp.MustCompile(`(?m)^message\s+(\w+)\s*\{`)
	rePkg    = regexp.MustCompile(`(?m)^package\s+([\w.]+)\s*;`)
	reField  = regexp.MustCompile(`(?m)^\s*(?:repeated\s+)?[\w.]+\s+(\w+)\s*=\s*\d+\s*(?:\[[^\]]*\])?\s*;`)
	rePK     = regexp.MustCompile(`primary_key\s*:\s*\{([^}]*)\}`)
	reIndex  = regexp.MustCompile(`index\s*:\s*\{([^}]*)\}`)
	reFields = regexp.MustCompile(`fields\s*:\s*"([^"]*)"`)
	reID     = regexp.MustCompile(`id\s*:\s*(\d+)`)
)

// ParseProtoTables extracts ORM table declarations from all state.proto files below root.
func ParseProtoTables(root string) (map[string]*TableMeta, error) {
	out := map[string]*TableMeta{}
	err := filepath.Walk(root, func(path string, info os.FileInfo, err error) error {
		if err != nil || info.IsDir() || !strings.HasSuffix(path, ".proto") {
			return err
		}
		data, err := os.ReadFile(path)
		if err != nil {
			return err
		}
		src := string(data)
		if !strings.Contains(src, "cosmos.orm.v1") {
			return nil
		}
		pkg := ""
		if m := rePkg.FindStringSubmatch(src); m != nil {
			pkg = m[1]
		}
		for _, loc := range reMsg.FindAllStringSubmatchIndex(src, -1) {
			name := src[loc[2]:loc[3]]
			// body: brace matching from the opening brace
			i := loc[1] - 1
			depth := 0
			end := i
			for j := i; j < len(src); j++ {
				if src[j] == '{' {
					depth++
				} else if src[j] == '}' {
					depth--
					if depth == 0 {
						end = j
						break
					}
				}
			}
			body := src[i+1 : end]
			tm := &TableMeta{Name: name, ProtoPkg: pkg}
			if k := strings.Index(body, "(cosmos.orm.v1.singleton)"); k >= 0 {
				tm.Singleton = true
			} else if k := strings.Index(body, "(cosmos.orm.v1.table)"); k >= 0 {
				// option block
				ob := strings.Index(body[k:], "{")
				d := 0
				oe := 0
				for j := k + ob; j < len(body); j++ {
					if body[j] == '{' {
						d++
					} else if body[j] == '}' {
						d--
						if d == 0 {
							oe = j
							break
						}
					}
				}
				opt := body[k+ob : oe+1]
				if m := rePK.FindStringSubmatch(opt); m != nil {
					if f := reFields.FindStringSubmatch(m[1]); f != nil {
						for _, p := range strings.Split(f[1], ",") {
							tm.PK = append(tm.PK, strings.TrimSpace(p))
						}
					}
					tm.AutoInc = strings.Contains(m[1], "auto_increment") && strings.Contains(m[1], "true")
				}
				for _, m := range reIndex.FindAllStringSubmatch(opt, -1) {
					im := IndexMeta{}
					if f := reFields.FindStringSubmatch(m[1]); f != nil {
						for _, p := range strings.Split(f[1], ",") {
							im.Fields = append(im.Fields, strings.TrimSpace(p))
						}
					}
					if id := reID.FindStringSubmatch(m[1]); id != nil {
						fmt.Sscanf(id[1], "%d", &im.ID)
					}
					im.Unique = strings.Contains(m[1], "unique") && strings.Contains(m[1], "true")
					tm.Indexes = append(tm.Indexes, im)
				}
				body = body[:k] + body[oe+1:]
			} else {
				continue
			}
			for _, f := range reField.FindAllStringSubmatch(stripComments(body), -1) {
				tm.Fields = append(tm.Fields, f[1])
			}
			out[pkg+"."+name] = tm
		}
		return nil
	})
	return out, err
}

func stripComments(s string) string {
	var sb strings.Builder
	for _, line := range strings.Split(s, "\n") {
		if i := strings.Index(line, "//"); i >= 0 {
			line = line[:i]
		}
		sb.WriteString(line)
		sb.WriteByte('\n')
	}
	return sb.String()
}

// ---- row <-> leaves

type leafSpec struct {
	Name string
	Sort smt.Sort
}

// rowSchema lists the scalar leaves of a message struct type, recursively through
// message-typed pointer fields ("present" flag first).
func (x *Exec) rowSchema(t types.Type, prefix string, out *[]leafSpec) {
	st := t.Underlying().(*types.Struct)
	for i := 0; i < st.NumFields(); i++ {
		f := st.Field(i)
		if !f.Exported() || strings.HasPrefix(f.Name(), "XXX_") {
			continue
		}
		name := prefix + f.Name()
		switch u := f.Type().Underlying().(type) {
		case *types.Basic:
			switch {
			case u.Info()&types.IsBoolean != 0:
				*out = append(*out, leafSpec{name, smt.SBool})
			case u.Info()&types.IsInteger != 0:
				*out = append(*out, leafSpec{name, smt.SInt})
			case u.Info()&types.IsString != 0:
				*out = append(*out, leafSpec{name, smt.SStr})
			default:
				x.Unsupported("row field %s of type %v", name, f.Type())
			}
		case *types.Slice:
			if b, ok := u.Elem().Underlying().(*types.Basic); ok && b.Kind() == types.Uint8 {
				*out = append(*out, leafSpec{name, smt.SStr})
			} else {
				x.Unsupported("repeated row field %s", name)
			}
		case *types.Pointer:
			*out = append(*out, leafSpec{name + "?", smt.SBool})
			x.rowSchema(u.Elem(), name+".", out)
		default:
			x.Unsupported("row field %s of type %v", name, f.Type())
		}
	}
}

// flattenRow reads the leaves of a message value.
func (x *Exec) flattenRow(v Value, t types.Type, out *[]*smt.Term) {
	B := x.B
	st := t.Underlying().(*types.Struct)
	sv, ok := v.(StructV)
	if !ok {
		x.Unsupported("flatten: %T is not a message struct", v)
	}
	for i := 0; i < st.NumFields(); i++ {
		f := st.Field(i)
		if !f.Exported() || strings.HasPrefix(f.Name(), "XXX_") {
			continue
		}
		fv := sv.F[i]
		switch u := f.Type().Underlying().(type) {
		case *types.Basic:
			switch w := fv.(type) {
			case BoolV:
				*out = append(*out, w.T)
			case IntV:
				*out = append(*out, w.T)
			case StrV:
				t := x.strAtomTerm(w)
				if t == nil {
					t = x.contentAtom(w.Bytes)
				}
				*out = append(*out, t)
			default:
				x.Unsupported("flatten field %s: %T", f.Name(), fv)
			}
		case *types.Slice:
			*out = append(*out, x.bytesTerm(fv))
		case *types.Pointer:
			p := fv.(PtrV)
			if p.Obj == nil {
				*out = append(*out, B.False)
				var sub []leafSpec
				x.rowSchema(u.Elem(), "", &sub)
				for _, l := range sub {
					*out = append(*out, x.defaultLeaf(l.Sort))
				}
				continue
			}
			if p.Cond != nil {
				*out = append(*out, p.Cond)
			} else {
				*out = append(*out, B.True)
			}
			x.flattenRow(x.loadRaw(p), u.Elem(), out)
		}
	}
}

func (x *Exec) defaultLeaf(s smt.Sort) *smt.Term {
	switch s {
	case smt.SBool:
		return x.B.False
	case smt.SInt:
		return x.B.Int(0)
	case smt.SReal:
		return x.B.RealInt(0)
	}
	return x.B.StrConst("")
}

// bytesTerm is the atom of a []byte value (nil and empty are the same atom "").
func (x *Exec) bytesTerm(v Value) *smt.Term {
	s, ok := v.(SliceV)
	if !ok {
		x.Unsupported("expected []byte, got %T", v)
	}
	if s.Atom != nil {
		return s.Atom
	}
	if s.Nil || s.Len == 0 {
		return x.B.StrConst("")
	}
	str := x.bytesToString(s).(StrV)
	if !str.IsConst {
		return x.contentAtom(str.Bytes)
	}
	return x.B.StrConst(str.S)
}

// unflattenRow builds a message value from leaves (consuming them in schema order).
func (x *Exec) unflattenRow(t types.Type, leaves []*smt.Term, pos *int, label string) Value {
	st := t.Underlying().(*types.Struct)
	f := make([]Value, st.NumFields())
	for i := 0; i < st.NumFields(); i++ {
		fd := st.Field(i)
		if !fd.Exported() || strings.HasPrefix(fd.Name(), "XXX_") {
			f[i] = x.zero(fd.Type())
			continue
		}
		switch u := fd.Type().Underlying().(type) {
		case *types.Basic:
			l := leaves[*pos]
			*pos++
			switch {
			case u.Info()&types.IsBoolean != 0:
				f[i] = BoolV{l}
			case u.Info()&types.IsInteger != 0:
				f[i] = IntV{l}
			default:
				if s, ok := x.B.StrConstValue(l); ok {
					f[i] = StrV{IsConst: true, S: s}
				} else {
					f[i] = StrV{Atom: l}
				}
			}
		case *types.Slice:
			l := leaves[*pos]
			*pos++
			if s, ok := x.B.StrConstValue(l); ok && s == "" {
				f[i] = SliceV{Nil: true}
			} else {
				f[i] = SliceV{Atom: l}
			}
		case *types.Pointer:
			present := leaves[*pos]
			*pos++
			sub := x.unflattenRow(u.Elem(), leaves, pos, label+"."+fd.Name())
			if present.IsFalse() {
				f[i] = PtrV{}
			} else {
				p := PtrV{Obj: x.newObj(sub, label+"."+fd.Name())}
				if !present.IsTrue() {
					p.Cond = present
				}
				f[i] = p
			}
		}
	}
	return StructV{f}
}

// ---- table state

type LogEntry struct {
	PK     []*smt.Term
	Exists bool
	Leaves []*smt.Term
}

type lookupRec struct {
	Index int // position in Meta.Indexes
	Vals  []*smt.Term
	K0    []*smt.Term
}

type TableState struct {
	Key     string // "<api pkg>.<Name>"
	Short   string // UF prefix
	Meta    *TableMeta
	RowType types.Type // the api struct type
	Schema  []leafSpec
	pkLeaf  []int // leaf index of each pk field
	Log     []*LogEntry
	Keys    [][]*smt.Term
	keySeen map[string]bool
	Lookups []lookupRec
	Univ    []func(k []*smt.Term) // universal facts instantiated on every (existing and future) key
	univN0  []int                 // log length each universal fact refers to
	Seq0    *smt.Term
	Inserts int
	env     *Env
}

type envCheckpoint struct {
	logLens map[string]int
	inserts map[string]int
	bank    int
	events  int
}

func (ts *TableState) leafIndex(x *Exec, protoField string) int {
	name := camel(protoField)
	for i, l := range ts.Schema {
		if l.Name == name {
			return i
		}
	}
	x.Unsupported("table %s has no leaf for field %s", ts.Key, protoField)
	return -1
}

func keyString(k []*smt.Term) string {
	var sb strings.Builder
	for _, t := range k {
		fmt.Fprintf(&sb, "%d,", t.ID)
	}
	return sb.String()
}

func (ts *TableState) uf(x *Exec, name string, ret smt.Sort, k []*smt.Term) *smt.Term {
	if len(k) == 0 {
		return x.B.Var(ts.Short+"_"+name, ret)
	}
	return x.B.App(ts.Short+"_"+name, ret, k...)
}

func (ts *TableState) exists0(x *Exec, k []*smt.Term) *smt.Term {
	if ts.Meta.Singleton {
		return x.B.True
	}
	return ts.uf(x, "exists0", smt.SBool, k)
}

func (ts *TableState) leaf0(x *Exec, k []*smt.Term, j int) *smt.Term {
	for i, pj := range ts.pkLeaf {
		if pj == j {
			return k[i]
		}
	}
	name := strings.NewReplacer(".", "_", "?", "_set").Replace(ts.Schema[j].Name)
	return ts.uf(x, name+"0", ts.Schema[j].Sort, k)
}

func (x *Exec) keysEq(a, b []*smt.Term) *smt.Term {
	r := x.B.True
	for i := range a {
		r = x.B.And(r, x.B.Eq(a[i], b[i]))
	}
	return r
}

// existsAt / leafAt read the table as of the first n log entries.
func (ts *TableState) existsAt(x *Exec, k []*smt.Term, n int) *smt.Term {
	r := ts.exists0(x, k)
	for i := 0; i < n; i++ {
		e := ts.Log[i]
		eq := x.keysEq(e.PK, k)
		if eq.IsFalse() {
			continue
		}
		r = x.B.Ite(eq, x.B.Bool(e.Exists), r)
	}
	return r
}

func (ts *TableState) leafAt(x *Exec, k []*smt.Term, j int, n int) *smt.Term {
	r := ts.leaf0(x, k, j)
	for _, pj := range ts.pkLeaf {
		if pj == j {
			return r
		}
	}
	for i := 0; i < n; i++ {
		e := ts.Log[i]
		if !e.Exists {
			continue
		}
		eq := x.keysEq(e.PK, k)
		if eq.IsFalse() {
			continue
		}
		r = x.B.Ite(eq, e.Leaves[j], r)
	}
	return r
}

func (ts *TableState) existsNow(x *Exec, k []*smt.Term) *smt.Term {
	return ts.existsAt(x, k, len(ts.Log))
}

func (ts *TableState) rowLeavesAt(x *Exec, k []*smt.Term, n int) []*smt.Term {
	out := make([]*smt.Term, len(ts.Schema))
	for j := range ts.Schema {
		out[j] = ts.leafAt(x, k, j, n)
	}
	return out
}

func (ts *TableState) rowValue(x *Exec, leaves []*smt.Term) Value {
	pos := 0
	return x.unflattenRow(ts.RowType, leaves, &pos, ts.Meta.Name)
}

// touch registers a key term: universal facts, the row invariant and the sequence bound
// are instantiated for it (first time only).
func (ts *TableState) touch(x *Exec, k []*smt.Term) {
	ks := keyString(k)
	if ts.keySeen[ks] {
		return
	}
	ts.keySeen[ks] = true
	ts.Keys = append(ts.Keys, k)
	B := x.B
	ex0 := ts.exists0(x, k)
	if ts.Meta.AutoInc {
		x.Assume(B.Implies(ex0, B.And(B.Le(B.Int(1), k[0]), B.Le(k[0], ts.seq0(x)))), "I-seq "+ts.Meta.Name)
	}
	// unique-index lookups done so far: an existing row with the looked-up value is the found row
	for _, lk := range ts.Lookups {
		ts.instantiateLookup(x, lk, k)
	}
	for _, u := range ts.Univ {
		u(k)
	}
	ts.env.applyRowInvariant(x, ts, k)
	ts.env.runOnTouch(x, ts)
}

func (ts *TableState) seq0(x *Exec) *smt.Term {
	if ts.Seq0 == nil {
		ts.Seq0 = x.B.Var(ts.Short+"_seq0", smt.SInt)
		x.setBounds(ts.Seq0, 0, (1<<62)-1, "sequence range "+ts.Meta.Name)
	}
	return ts.Seq0
}

func (ts *TableState) indexVals0(x *Exec, idx IndexMeta, k []*smt.Term) []*smt.Term {
	var out []*smt.Term
	for _, f := range idx.Fields {
		out = append(out, ts.indexLeaves(x, f, func(j int) *smt.Term { return ts.leaf0(x, k, j) })...)
	}
	return out
}

// indexLeaves returns the key component(s) of a field: timestamps index as (seconds, nanos)
// with an unset timestamp encoded as (0,0).
func (ts *TableState) indexLeaves(x *Exec, protoField string, get func(j int) *smt.Term) []*smt.Term {
	name := camel(protoField)
	for j, l := range ts.Schema {
		if l.Name == name {
			return []*smt.Term{get(j)}
		}
		if l.Name == name+"?" {
			B := x.B
			present := get(j)
			sec := B.Ite(present, get(j+1), B.Int(0))
			ns := B.Ite(present, get(j+2), B.Int(0))
			return []*smt.Term{sec, ns}
		}
	}
	x.Unsupported("index field %s not found in %s", protoField, ts.Key)
	return nil
}

func (ts *TableState) instantiateLookup(x *Exec, lk lookupRec, k []*smt.Term) {
	B := x.B
	idx := ts.Meta.Indexes[lk.Index]
	vals := ts.indexVals0(x, idx, k)
	match := B.True
	for i := range lk.Vals {
		match = B.And(match, B.Eq(vals[i], lk.Vals[i]))
	}
	x.Assume(B.Implies(B.And(ts.exists0(x, k), match), x.keysEq(k, lk.K0)), "unique index "+ts.Meta.Name)
}

// lookup0 returns the primary key of the row that has the given unique-index value in the
// initial state (a deterministic function of the value), registering the uniqueness fact.
func (ts *TableState) lookup0(x *Exec, idxPos int, vals []*smt.Term) []*smt.Term {
	idx := ts.Meta.Indexes[idxPos]
	var k0 []*smt.Term
	for i, pf := range ts.Meta.PK {
		j := ts.leafIndex(x, pf)
		k0 = append(k0, x.B.App(fmt.Sprintf("%s_by%d_pk%d", ts.Short, idx.ID, i), ts.Schema[j].Sort, vals...))
	}
	ks := fmt.Sprintf("%d:%s", idxPos, keyString(vals))
	for _, lk := range ts.Lookups {
		if fmt.Sprintf("%d:%s", lk.Index, keyString(lk.Vals)) == ks {
			return k0
		}
	}
	lk := lookupRec{Index: idxPos, Vals: vals, K0: k0}
	ts.Lookups = append(ts.Lookups, lk)
	for _, k := range ts.Keys {
		ts.instantiateLookup(x, lk, k)
	}
	ts.touch(x, k0)
	return k0
}

// findByIndex resolves a unique-index lookup in the current state:
// returns (found, pk).
func (ts *TableState) findByIndex(x *Exec, idxPos int, vals []*smt.Term) (*smt.Term, []*smt.Term) {
	B := x.B
	idx := ts.Meta.Indexes[idxPos]
	k0 := ts.lookup0(x, idxPos, vals)
	n := len(ts.Log)
	valsNow := func(k []*smt.Term) *smt.Term {
		m := B.True
		var cur []*smt.Term
		for _, f := range idx.Fields {
			cur = append(cur, ts.indexLeaves(x, f, func(j int) *smt.Term { return ts.leafAt(x, k, j, n) })...)
		}
		for i := range vals {
			m = B.And(m, B.Eq(cur[i], vals[i]))
		}
		return m
	}
	found := B.And(ts.existsAt(x, k0, n), valsNow(k0))
	pk := k0
	// rows written on this path may carry the value as well
	for i := 0; i < n; i++ {
		e := ts.Log[i]
		if !e.Exists {
			continue
		}
		c := B.And(ts.existsAt(x, e.PK, n), valsNow(e.PK))
		if c.IsFalse() {
			continue
		}
		npk := make([]*smt.Term, len(pk))
		for q := range pk {
			npk[q] = B.Ite(c, e.PK[q], pk[q])
		}
		pk = npk
		found = B.Or(found, c)
	}
	return found, pk
}

func (ts *TableState) write(x *Exec, pk []*smt.Term, exists bool, leaves []*smt.Term) {
	if x.Cfg.Debug {
		fmt.Printf("WRITE %s exists=%v\n", ts.Meta.Name, exists)
		for i, t := range pk {
			fmt.Printf("   pk[%d] = %s\n", i, t.StringN(300))
		}
		for j, t := range leaves {
			fmt.Printf("   %s = %s\n", ts.Schema[j].Name, t.StringN(300))
		}
	}
	ts.touch(x, pk)
	ts.Log = append(ts.Log, &LogEntry{PK: pk, Exists: exists, Leaves: leaves})
}

func (ts *TableState) pkOfLeaves(leaves []*smt.Term) []*smt.Term {
	pk := make([]*smt.Term, len(ts.pkLeaf))
	for i, j := range ts.pkLeaf {
		pk[i] = leaves[j]
	}
	return pk
}

// uniqueViolation: does another existing row carry the same value on a unique index?
func (ts *TableState) uniqueViolation(x *Exec, pk []*smt.Term, leaves []*smt.Term) *smt.Term {
	B := x.B
	viol := B.False
	for ip, idx := range ts.Meta.Indexes {
		if !idx.Unique {
			continue
		}
		var vals []*smt.Term
		for _, f := range idx.Fields {
			vals = append(vals, ts.indexLeaves(x, f, func(j int) *smt.Term { return leaves[j] })...)
		}
		found, fpk := ts.findByIndex(x, ip, vals)
		viol = B.Or(viol, B.And(found, B.Not(x.keysEq(fpk, pk))))
	}
	return viol
}

// ---- Env: all models of one path

type Env struct {
	x         *Exec
	Protos    map[string]*TableMeta
	Tables    map[string]*TableState
	Order     []string
	RowInv    map[string]FuncV
	OnTouch   map[string][]FuncV
	touchBusy bool
	invBusy   int
	Bank      *BankState
	Ctx       *CtxState
	Events    []Value
	saved     *effectsSnap
	Calls     []RecordedCall
	snapshot  *envCheckpoint
}

func newEnv(x *Exec) *Env {
	return &Env{x: x, Tables: map[string]*TableState{}, RowInv: map[string]FuncV{}, OnTouch: map[string][]FuncV{}}
}

var protoCache struct {
	tabs map[string]*TableMeta
	err  error
	done bool
}

func (e *Env) protos(x *Exec) map[string]*TableMeta {
	x.P.mu.Lock()
	defer x.P.mu.Unlock()
	if !protoCache.done {
		protoCache.done = true
		root := x.P.ProtoRoot
		if root == "" {
			root = "/repo/proto"
		}
		protoCache.tabs, protoCache.err = ParseProtoTables(root)
	}
	if protoCache.err != nil {
		x.Unsupported("cannot read table declarations: %v", protoCache.err)
	}
	return protoCache.tabs
}

// tableFor returns the state of the table whose row type is the given api struct type.
func (e *Env) tableFor(x *Exec, rowType types.Type) *TableState {
	n, ok := derefNamed(rowType)
	if !ok {
		x.Unsupported("table row type %v", rowType)
	}
	key := n.Obj().Pkg().Path() + "." + n.Obj().Name()
	if ts, ok := e.Tables[key]; ok {
		return ts
	}
	// api package path .../api/v2/regen/ecocredit/v1 -> proto package regen.ecocredit.v1
	path := n.Obj().Pkg().Path()
	i := strings.Index(path, "/regen/")
	if i < 0 {
		x.Unsupported("cannot derive proto package from %s", path)
	}
	ppkg := strings.ReplaceAll(path[i+1:], "/", ".")
	meta := e.protos(x)[ppkg+"."+n.Obj().Name()]
	if meta == nil {
		x.Unsupported("no ORM table declaration for %s.%s", ppkg, n.Obj().Name())
	}
	short := strings.ReplaceAll(strings.TrimPrefix(ppkg, "regen."), ".", "_") + "_" + meta.Name
	ts := &TableState{Key: key, Short: short, Meta: meta, RowType: n, keySeen: map[string]bool{}, env: e}
	x.rowSchema(n, "", &ts.Schema)
	for _, pf := range meta.PK {
		ts.pkLeaf = append(ts.pkLeaf, ts.leafIndex(x, pf))
	}
	e.Tables[key] = ts
	e.Order = append(e.Order, key)
	return ts
}

// tableByName finds a table by message name (harness primitives use short names; a
// "pkg.Name" form disambiguates).
func (e *Env) tableByName(x *Exec, name string) *TableState {
	for _, k := range e.Order {
		ts := e.Tables[k]
		if ts.Meta.Name == name || ts.Meta.ProtoPkg+"."+ts.Meta.Name == name || ts.Short == name {
			return ts
		}
	}
	// not yet instantiated: look for the api type among loaded packages
	for path, sp := range x.P.ByPath {
		if !strings.Contains(path, "/api/") || !strings.Contains(path, "/regen/") {
			continue
		}
		short := name
		want := ""
		if i := strings.LastIndex(name, "."); i >= 0 {
			short = name[i+1:]
			want = name[:i]
		}
		if want != "" && !strings.HasSuffix(strings.ReplaceAll(path, "/", "."), want) {
			continue
		}
		if m, ok := sp.Members[short].(*ssa.Type); ok {
			i := strings.Index(path, "/regen/")
			ppkg := strings.ReplaceAll(path[i+1:], "/", ".")
			if e.protos(x)[ppkg+"."+short] != nil {
				return e.tableFor(x, m.Type())
			}
		}
	}
	x.Unsupported("unknown table %s", name)
	return nil
}

func (e *Env) applyRowInvariant(x *Exec, ts *TableState, k []*smt.Term) {
	f, ok := e.RowInv[ts.Meta.ProtoPkg+"."+ts.Meta.Name]
	if !ok {
		f, ok = e.RowInv[ts.Meta.Name]
	}
	if !ok {
		return
	}
	if e.invBusy > 8 {
		x.Unsupported("row invariants recurse too deeply at %s", ts.Key)
	}
	e.invBusy++
	defer func() { e.invBusy-- }()
	row := ts.rowValue(x, ts.rowLeavesAt(x, k, 0))
	obj := x.newObj(row, ts.Meta.Name+"@0")
	res := x.invokeValue(f, []Value{PtrV{Obj: obj}}, nil)
	bv, ok := res.(BoolV)
	if !ok {
		x.Unsupported("row invariant for %s must return bool", ts.Key)
	}
	x.Assume(x.B.Implies(ts.exists0(x, k), bv.T), "I-row "+ts.Meta.Name)
}

// runOnTouch calls the harness hooks registered for this table (not re-entrantly): they
// instantiate cross-row invariants (sums) on the rows read so far.
func (e *Env) runOnTouch(x *Exec, ts *TableState) {
	if e.touchBusy || e.invBusy > 0 || x.merge != nil {
		return
	}
	hooks := e.OnTouch[ts.Meta.ProtoPkg+"."+ts.Meta.Name]
	if len(hooks) == 0 {
		return
	}
	e.touchBusy = true
	defer func() { e.touchBusy = false }()
	for _, f := range hooks {
		x.invokeValue(f, nil, nil)
	}
}

func (e *Env) checkpoint() *envCheckpoint {
	cp := &envCheckpoint{logLens: map[string]int{}, inserts: map[string]int{}}
	for k, ts := range e.Tables {
		cp.logLens[k] = len(ts.Log)
		cp.inserts[k] = ts.Inserts
	}
	if e.Bank != nil {
		cp.bank = len(e.Bank.Log)
	}
	cp.events = len(e.Events)
	return cp
}

func (e *Env) rollback(cp *envCheckpoint) {
	for k, ts := range e.Tables {
		ts.Log = ts.Log[:cp.logLens[k]]
		ts.Inserts = cp.inserts[k]
		// universal facts about table contents that no longer exist are dropped; those about
		// the pre-state stay (they tie a second execution's iterators to the first's)
		var keep []func(k []*smt.Term)
		var keepN []int
		for i, u := range ts.Univ {
			if i < len(ts.univN0) && ts.univN0[i] <= cp.logLens[k] {
				keep = append(keep, u)
				keepN = append(keepN, ts.univN0[i])
			}
		}
		ts.Univ, ts.univN0 = keep, keepN
	}
	if e.Bank != nil {
		e.Bank.Log = e.Bank.Log[:cp.bank]
	}
	e.Events = e.Events[:cp.events]
}

// ---- models

type StoreModel struct {
	env   *Env
	Iface types.Type
}

func (m *StoreModel) ModelName() string { return "StateStore" }

func (m *StoreModel) Invoke(x *Exec, method string, args []Value, c *ssa.CallCommon) Value {
	if !strings.HasSuffix(method, "Table") {
		if method == "doNotImplement" {
			return nil
		}
		x.Unsupported("StateStore method %s", method)
	}
	// result type: the table interface; row type from its Get/Insert signature
	sig := c.Method.Type().(*types.Signature)
	tabIface := sig.Results().At(0).Type()
	return ModelV{&TableModel{env: m.env, Iface: tabIface}}
}

type TableModel struct {
	env   *Env
	Iface types.Type
	ts    *TableState
}

func (m *TableModel) ModelName() string {
	if n, ok := m.Iface.(*types.Named); ok {
		return n.Obj().Name()
	}
	return "Table"
}

func (m *TableModel) table(x *Exec) *TableState {
	if m.ts != nil {
		return m.ts
	}
	it := m.Iface.Underlying().(*types.Interface)
	for i := 0; i < it.NumMethods(); i++ {
		f := it.Method(i)
		if f.Name() == "Insert" || f.Name() == "Save" {
			sig := f.Type().(*types.Signature)
			m.ts = m.env.tableFor(x, sig.Params().At(1).Type())
			return m.ts
		}
	}
	x.Unsupported("cannot determine row type of %v", m.Iface)
	return nil
}

func (x *Exec) ormErr(name string) ErrV {
	full := "github.com/cosmos/cosmos-sdk/orm/types/ormerrors." + name
	return ErrV{Root: full, ID: x.errID(full)}
}

func (x *Exec) scalarTerm(v Value) *smt.Term {
	if iv, ok := v.(IfaceV); ok {
		v = iv.V
	}
	switch u := v.(type) {
	case IntV:
		return u.T
	case BoolV:
		return u.T
	case StrV:
		t := x.strAtomTerm(u)
		if t == nil {
			t = x.contentAtom(u.Bytes)
		}
		return t
	case SliceV:
		return x.bytesTerm(u)
	}
	x.Unsupported("table key component of type %T", v)
	return nil
}

// keyTerms converts key arguments; a *timestamppb.Timestamp contributes (seconds, nanos).
func (x *Exec) keyTerms(vs []Value) []*smt.Term {
	var out []*smt.Term
	for _, v := range vs {
		if iv, ok := v.(IfaceV); ok {
			v = iv.V
		}
		if p, ok := v.(PtrV); ok {
			if p.Obj == nil {
				out = append(out, x.B.Int(0), x.B.Int(0))
				continue
			}
			x.ensureNonNil(p)
			sv := x.loadRaw(p).(StructV)
			// timestamppb.Timestamp{state,sizeCache,unknownFields,Seconds,Nanos}
			n := len(sv.F)
			out = append(out, sv.F[n-2].(IntV).T, sv.F[n-1].(IntV).T)
			continue
		}
		out = append(out, x.scalarTerm(v))
	}
	return out
}

func (m *TableModel) Invoke(x *Exec, method string, args []Value, c *ssa.CallCommon) Value {
	ts := m.table(x)
	B := x.B
	nilErr := IfaceV{}
	rowArg := func() (pk []*smt.Term, leaves []*smt.Term, ptr PtrV) {
		ptr = args[1].(PtrV)
		if ptr.Obj == nil {
			panic(goPanic{Msg: "nil message passed to the ORM"})
		}
		x.flattenRow(x.loadRaw(ptr), ts.RowType, &leaves)
		return ts.pkOfLeaves(leaves), leaves, ptr
	}
	switch {
	case ts.Meta.Singleton && method == "Get":
		k := []*smt.Term{}
		ts.touch(x, k)
		row := ts.rowValue(x, ts.rowLeavesAt(x, k, len(ts.Log)))
		return TupleV{PtrV{Obj: x.newObj(row, ts.Meta.Name)}, nilErr}
	case ts.Meta.Singleton && method == "Save":
		_, leaves, _ := rowArg()
		ts.write(x, []*smt.Term{}, true, leaves)
		return nilErr
	case method == "Has" || method == "Get":
		k := x.keyTerms(args[1:])
		ts.touch(x, k)
		found := x.Branch(ts.existsNow(x, k))
		if method == "Has" {
			return TupleV{BoolV{B.Bool(found)}, nilErr}
		}
		if !found {
			return TupleV{PtrV{}, x.ormErr("NotFound")}
		}
		row := ts.rowValue(x, ts.rowLeavesAt(x, k, len(ts.Log)))
		return TupleV{PtrV{Obj: x.newObj(row, ts.Meta.Name)}, nilErr}
	case strings.HasPrefix(method, "HasBy") || strings.HasPrefix(method, "GetBy"):
		ip := m.indexByMethod(x, ts, method[5:])
		vals := x.keyTerms(args[1:])
		found, pk := ts.findByIndex(x, ip, vals)
		ok := x.Branch(found)
		if method[:3] == "Has" {
			return TupleV{BoolV{B.Bool(ok)}, nilErr}
		}
		if !ok {
			return TupleV{PtrV{}, x.ormErr("NotFound")}
		}
		ts.touch(x, pk)
		row := ts.rowValue(x, ts.rowLeavesAt(x, pk, len(ts.Log)))
		return TupleV{PtrV{Obj: x.newObj(row, ts.Meta.Name)}, nilErr}
	case method == "Insert" || method == "InsertReturningID":
		pk, leaves, ptr := rowArg()
		if ts.Meta.AutoInc {
			if !x.Branch(B.Eq(pk[0], B.Int(0))) {
				x.Unsupported("insert into auto-increment table %s with a preset id", ts.Key)
			}
			ts.Inserts++
			id := B.Add(ts.seq0(x), B.Int(int64(ts.Inserts)))
			j := ts.pkLeaf[0]
			leaves[j] = id
			pk = []*smt.Term{id}
			// unique indexes
			if x.Branch(ts.uniqueViolation(x, pk, leaves)) {
				ts.Inserts--
				if method == "Insert" {
					return x.ormErr("UniqueKeyViolation")
				}
				return TupleV{IntV{B.Int(0)}, x.ormErr("UniqueKeyViolation")}
			}
			ts.write(x, pk, true, leaves)
			// the ORM writes the new id back into the message
			x.setRowPK(ptr, ts, id)
			if method == "Insert" {
				return nilErr
			}
			return TupleV{IntV{id}, nilErr}
		}
		ts.touch(x, pk)
		if x.Branch(ts.existsNow(x, pk)) {
			return x.ormErr("AlreadyExists")
		}
		if x.Branch(ts.uniqueViolation(x, pk, leaves)) {
			return x.ormErr("UniqueKeyViolation")
		}
		ts.write(x, pk, true, leaves)
		return nilErr
	case method == "Update":
		pk, leaves, _ := rowArg()
		ts.touch(x, pk)
		if !x.Branch(ts.existsNow(x, pk)) {
			return x.ormErr("NotFound")
		}
		if x.Branch(ts.uniqueViolation(x, pk, leaves)) {
			return x.ormErr("UniqueKeyViolation")
		}
		ts.write(x, pk, true, leaves)
		return nilErr
	case method == "Save":
		pk, leaves, ptr := rowArg()
		if ts.Meta.AutoInc {
			if x.Branch(B.Eq(pk[0], B.Int(0))) {
				ts.Inserts++
				id := B.Add(ts.seq0(x), B.Int(int64(ts.Inserts)))
				leaves[ts.pkLeaf[0]] = id
				pk = []*smt.Term{id}
				if x.Branch(ts.uniqueViolation(x, pk, leaves)) {
					ts.Inserts--
					return x.ormErr("UniqueKeyViolation")
				}
				ts.write(x, pk, true, leaves)
				x.setRowPK(ptr, ts, id)
				return nilErr
			}
			ts.touch(x, pk)
			if !x.Branch(ts.existsNow(x, pk)) {
				return x.ormErr("NotFound")
			}
		} else {
			ts.touch(x, pk)
		}
		if x.Branch(ts.uniqueViolation(x, pk, leaves)) {
			return x.ormErr("UniqueKeyViolation")
		}
		ts.write(x, pk, true, leaves)
		return nilErr
	case method == "Delete":
		pk, leaves, _ := rowArg()
		ts.touch(x, pk)
		// deleting a missing row is a no-op
		if x.Branch(ts.existsNow(x, pk)) {
			ts.write(x, pk, false, leaves)
		}
		return nilErr
	case method == "List" || method == "ListRange" || method == "DeleteBy" || method == "DeleteRange":
		return m.iterate(x, ts, method, args)
	case method == "doNotImplement":
		return nil
	}
	x.Unsupported("ORM table method %s.%s", ts.Meta.Name, method)
	return nil
}

func (x *Exec) setRowPK(ptr PtrV, ts *TableState, id *smt.Term) {
	st := ts.RowType.Underlying().(*types.Struct)
	name := camel(ts.Meta.PK[0])
	for i := 0; i < st.NumFields(); i++ {
		if st.Field(i).Name() == name {
			x.store(PtrV{Obj: ptr.Obj, Path: appendPath(ptr.Path, i)}, IntV{id})
			return
		}
	}
}

func (m *TableModel) indexByMethod(x *Exec, ts *TableState, suffix string) int {
	for ip, idx := range ts.Meta.Indexes {
		if !idx.Unique {
			continue
		}
		name := ""
		for _, f := range idx.Fields {
			name += camel(f)
		}
		if name == suffix {
			return ip
		}
	}
	x.Unsupported("no unique index %s on %s", suffix, ts.Key)
	return -1
}
