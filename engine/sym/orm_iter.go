package sym

import (
	"fmt"
	"go/types"

	"golang.org/x/tools/go/ssa"

	"verif/engine/smt"
)

// IterModel is the finite-witness model of an ORM iterator.
type IterModel struct {
	ts   *TableState
	wit  [][]*smt.Term
	pos  int
	name string
	// paged: the List call carried ormlist.Paginate (then PageResponse is non-nil)
	paged      bool
	countTotal bool
}

func (m *IterModel) ModelName() string { return "Iterator" }

func (m *IterModel) Invoke(x *Exec, method string, args []Value, c *ssa.CallCommon) Value {
	switch method {
	case "Next":
		m.pos++
		return BoolV{x.B.Bool(m.pos <= len(m.wit))}
	case "Close":
		return nil
	case "UnmarshalMessage":
		if m.pos < 1 || m.pos > len(m.wit) {
			return x.newErr("orm-iterator", "invalid iterator position")
		}
		k := m.wit[m.pos-1]
		ts := m.ts
		dst := args[0]
		if iv, ok := dst.(IfaceV); ok {
			dst = iv.V
		}
		// the row as it is now (a row deleted meanwhile by the handler itself is still
		// decoded from the iterator's snapshot in the real store; handlers do not rely on it)
		row := ts.rowValue(x, ts.rowLeavesAt(x, k, len(ts.Log)))
		x.store(dst, row)
		return IfaceV{}
	case "PageResponse":
		if !m.paged {
			return PtrV{}
		}
		// all matching rows fit in the first page (checked when the iterator was created):
		// no next key; the total is the number of rows when it was asked for
		pt := c.Method.Type().(*types.Signature).Results().At(0).Type().(*types.Pointer)
		st := x.zero(pt.Elem()).(StructV)
		ut := pt.Elem().Underlying().(*types.Struct)
		for i := 0; i < ut.NumFields(); i++ {
			if ut.Field(i).Name() == "Total" && m.countTotal {
				st.F[i] = IntV{x.B.Int(int64(len(m.wit)))}
			}
		}
		return PtrV{Obj: x.newObj(st, "PageResponse")}
	case "Keys":
		x.Unsupported("Iterator.Keys")
	case "Cursor":
		return SliceV{Nil: true}
	case "GetMessage":
		x.Unsupported("Iterator.GetMessage")
	case "doNotImplement":
		return nil
	}
	x.Unsupported("iterator method %s", method)
	return nil
}

// indexKeyArg decodes a generated XxxIndexKey value into (index position or -1 for the
// primary key, values).
func (x *Exec) indexKeyArg(ts *TableState, v Value) (int, []Value) {
	iv, ok := v.(IfaceV)
	if !ok || iv.T == nil {
		x.Unsupported("index key argument %T", v)
	}
	idv := x.CallMethodByName(iv.T, iv.V, "id")
	id := x.concreteInt(idv, "index id")
	valsV := x.CallMethodByName(iv.T, iv.V, "values")
	var vals []Value
	if sl, ok := valsV.(SliceV); ok {
		vals = x.sliceElems(sl)
	}
	if id == 0 {
		return -1, vals
	}
	for ip, idx := range ts.Meta.Indexes {
		if idx.ID == id {
			return ip, vals
		}
	}
	x.Unsupported("index id %d not declared for %s", id, ts.Key)
	return 0, nil
}

type keyComp struct {
	leaf     int  // leaf index (or first of timestamp triple)
	ts       bool // timestamp field: present?, seconds, nanos
	part     int  // for timestamps: 0 seconds, 1 nanos
	sort     smt.Sort
	terminal bool // last field of the key codec (strings/bytes match by prefix there)
}

// keyComps lists the components of the full key of an index: index fields then the
// primary key fields not already present.
func (ts *TableState) keyComps(x *Exec, ip int) []keyComp {
	var fields []string
	if ip < 0 {
		fields = append(fields, ts.Meta.PK...)
	} else {
		idx := ts.Meta.Indexes[ip]
		fields = append(fields, idx.Fields...)
		if !idx.Unique {
			for _, pf := range ts.Meta.PK {
				dup := false
				for _, f := range fields {
					if f == pf {
						dup = true
					}
				}
				if !dup {
					fields = append(fields, pf)
				}
			}
		}
	}
	var out []keyComp
	for fi, f := range fields {
		name := camel(f)
		last := fi == len(fields)-1
		for j, l := range ts.Schema {
			if l.Name == name {
				out = append(out, keyComp{leaf: j, sort: l.Sort, terminal: last})
			} else if l.Name == name+"?" {
				out = append(out, keyComp{leaf: j, ts: true, part: 0, sort: smt.SInt}, keyComp{leaf: j, ts: true, part: 1, sort: smt.SInt})
			}
		}
	}
	return out
}

func (ts *TableState) compValue(x *Exec, c keyComp, get func(j int) *smt.Term) *smt.Term {
	if !c.ts {
		return get(c.leaf)
	}
	B := x.B
	return B.Ite(get(c.leaf), get(c.leaf+1+c.part), B.Int(0))
}

func (x *Exec) rankOf(t *smt.Term) *smt.Term {
	switch t.Sort {
	case smt.SStr:
		return x.strRank(t)
	case smt.SBool:
		return x.B.Ite(t, x.B.Int(1), x.B.Int(0))
	}
	return t
}

// lexLess: strict lexicographic order of two component vectors.
func (x *Exec) lexLess(a, b []*smt.Term, orEqual bool) *smt.Term {
	B := x.B
	r := B.Bool(orEqual)
	for i := len(a) - 1; i >= 0; i-- {
		ra, rb := x.rankOf(a[i]), x.rankOf(b[i])
		r = B.Or(B.Lt(ra, rb), B.And(B.Eq(a[i], b[i]), r))
	}
	return r
}

func (x *Exec) strPrefix(s, p *smt.Term) *smt.Term {
	B := x.B
	if s == p {
		return B.True
	}
	if pc, ok := B.StrConstValue(p); ok {
		if pc == "" {
			return B.True
		}
		if sc, ok := B.StrConstValue(s); ok {
			return B.Bool(len(sc) >= len(pc) && sc[:len(pc)] == pc)
		}
	}
	t := B.App("str_prefix", smt.SBool, s, p)
	if !x.lenAxiom[t.ID] {
		x.lenAxiom[t.ID] = true
		// prefix implies length order; equality implies prefix
		x.Assume(B.And(B.Implies(t, B.Le(x.atomLen(p), x.atomLen(s))), B.Implies(B.Eq(s, p), t)), "str_prefix")
	}
	return t
}

// iterate implements List, ListRange, DeleteBy and DeleteRange with finite witnesses.
func (m *TableModel) iterate(x *Exec, ts *TableState, method string, args []Value) Value {
	B := x.B
	ip, fromVals := x.indexKeyArg(ts, args[1])
	comps := ts.keyComps(x, ip)
	from := x.keyTerms(fromVals)
	var to []*smt.Term
	isRange := method == "ListRange" || method == "DeleteRange"
	if isRange {
		ip2, toVals := x.indexKeyArg(ts, args[2])
		if ip2 != ip {
			return m.iterErr(x, method, "start and end must be on the same index")
		}
		to = x.keyTerms(toVals)
	}
	n0 := len(ts.Log)
	rowAt := func(k []*smt.Term) func(j int) *smt.Term {
		return func(j int) *smt.Term { return ts.leafAt(x, k, j, n0) }
	}
	keyVec := func(k []*smt.Term) []*smt.Term {
		out := make([]*smt.Term, len(comps))
		get := rowAt(k)
		for i, c := range comps {
			out[i] = ts.compValue(x, c, get)
		}
		return out
	}
	matches := func(k []*smt.Term) *smt.Term {
		kv := keyVec(k)
		if !isRange {
			r := B.True
			for i, v := range from {
				if i == len(from)-1 && comps[i].terminal && comps[i].sort == smt.SStr {
					r = B.And(r, x.strPrefix(kv[i], v))
				} else {
					r = B.And(r, B.Eq(kv[i], v))
				}
			}
			return r
		}
		// inclusive at both ends, compared on the provided components
		lo := x.lexLess(from, kv[:len(from)], true)
		hi := x.lexLess(kv[:len(to)], to, true)
		return B.And(lo, hi)
	}
	maxN := x.Cfg.Bound("iter", 2)
	if v, ok := x.Cfg.Bounds["iter:"+ts.Meta.Name]; ok {
		maxN = v
	}
	n := x.Choose(maxN+1, "rows yielded by "+ts.Meta.Name+"."+method)
	x.iterN++
	name := fmt.Sprintf("it%d_%s", x.iterN, ts.Meta.Name)
	x.addNondet(name+".rows", "choice", B.Int(int64(n)))
	var wit [][]*smt.Term
	for i := 0; i < n; i++ {
		var k []*smt.Term
		for q, pj := range ts.pkLeaf {
			v := B.Var(fmt.Sprintf("%s_k%d_%d", name, i, q), ts.Schema[pj].Sort)
			k = append(k, v)
		}
		x.addNondet(fmt.Sprintf("%s.key%d", name, i), "key", k...)
		wit = append(wit, k)
	}
	for i, k := range wit {
		ts.touch(x, k)
		x.Assume(B.And(ts.existsAt(x, k, n0), matches(k)), "iterator witness exists and matches")
		if i > 0 {
			x.Assume(x.lexLess(keyVec(wit[i-1]), keyVec(k), false), "iterator order")
		}
	}
	// completeness: every existing matching row is one of the witnesses
	complete := func(k []*smt.Term) {
		in := B.False
		for _, w := range wit {
			in = B.Or(in, x.keysEq(k, w))
		}
		x.Assume(B.Implies(B.And(ts.existsAt(x, k, n0), matches(k)), in), "iterator complete")
	}
	for _, k := range ts.Keys {
		complete(k)
	}
	ts.Univ = append(ts.Univ, complete)
	ts.univN0 = append(ts.univN0, n0)
	if method == "DeleteBy" || method == "DeleteRange" {
		for _, k := range wit {
			ts.write(x, k, false, ts.rowLeavesAt(x, k, len(ts.Log)))
		}
		return IfaceV{}
	}
	it := &IterModel{ts: ts, wit: wit, name: name}
	// options: only pagination that keeps every matching row in the first page is modelled
	// (the page walk is the ORM paginator's own business)
	for _, ov := range args[2:] {
		for _, o := range x.variadic(ov) {
			op, ok := unwrapIface(o).(OpaqueV)
			if !ok || op.Kind != "orm-paginate" {
				x.Unsupported("ORM list option %T", unwrapIface(o))
			}
			it.paged = true
			pr, _ := op.Data.(Value)
			pp, ok := pr.(PtrV)
			if !ok || pp.Obj == nil {
				continue
			}
			rv := x.load(pp).(StructV)
			names := op.Names
			for i, fn := range names {
				switch fn {
				case "Key":
					if sl, ok := rv.F[i].(SliceV); ok && !(sl.Nil || (sl.Atom == nil && sl.Len == 0)) {
						x.Unsupported("pagination by key (outside the claim: the page walk is the ORM's)")
					}
				case "Offset":
					if v, ok := rv.F[i].(IntV).T.ConstInt64(); !ok || v != 0 {
						x.Unsupported("pagination offset (outside the claim: the page walk is the ORM's)")
					}
				case "Limit":
					if v, ok := rv.F[i].(IntV).T.ConstInt64(); !ok || (v != 0 && v < int64(maxN)) {
						x.Unsupported("pagination limit below the iterator bound (outside the claim)")
					}
				case "Reverse":
					if !rv.F[i].(BoolV).T.IsFalse() {
						x.Unsupported("reverse pagination (outside the claim)")
					}
				case "CountTotal":
					if rv.F[i].(BoolV).T.IsTrue() {
						it.countTotal = true
					} else if !rv.F[i].(BoolV).T.IsFalse() {
						x.Unsupported("symbolic count_total")
					}
				}
			}
		}
	}
	// result: the generated XxxIterator struct{ ormtable.Iterator }
	return TupleV{StructV{F: []Value{ModelV{it}}}, IfaceV{}}
}

func (m *TableModel) iterErr(x *Exec, method, msg string) Value {
	e := x.newErr("orm-iterator", msg)
	if method == "DeleteBy" || method == "DeleteRange" {
		return e
	}
	return TupleV{StructV{F: []Value{IfaceV{}}}, e}
}

var _ = types.Typ
