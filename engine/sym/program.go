package sym

import (
	"fmt"
	"go/types"
	"os"
	"path/filepath"
	"sort"
	"strings"
	"sync"
	"time"

	"golang.org/x/tools/go/packages"
	"golang.org/x/tools/go/ssa"
	"golang.org/x/tools/go/ssa/ssautil"

	"verif/engine/smt"
)

const RegenPrefix = "github.com/regen-network/regen-ledger/"

type Program struct {
	Prog      *ssa.Program
	Roots     []*packages.Package
	ByPath    map[string]*ssa.Package
	Intr      map[string]Intrinsic
	Interpret map[string]bool // extra package paths interpreted from SSA
	Dir       string
	LoadS     float64
	Files     []string // source files of the loaded root packages
	ProtoRoot string
	MergeFns  map[string]bool
	fullDone  map[string]bool
	mu        sync.Mutex
}

// Load type-checks and lowers the packages under dir matching patterns, with overlay files.
func Load(dir string, overlay map[string][]byte, patterns []string) (*Program, error) {
	t0 := time.Now()
	cfg := &packages.Config{
		Mode:       packages.LoadAllSyntax,
		Dir:        dir,
		BuildFlags: []string{"-tags=verif"},
		Overlay:    overlay,
		Env:        append(os.Environ(), "GOFLAGS=-mod=mod", "GOPROXY=off", "GOSUMDB=off", "GOTOOLCHAIN=local"),
	}
	pkgs, err := packages.Load(cfg, patterns...)
	if err != nil {
		return nil, err
	}
	var errs []string
	packages.Visit(pkgs, nil, func(p *packages.Package) {
		for _, e := range p.Errors {
			errs = append(errs, e.Error())
		}
	})
	if len(errs) > 0 {
		if len(errs) > 20 {
			errs = errs[:20]
		}
		return nil, fmt.Errorf("package errors:\n%s", strings.Join(errs, "\n"))
	}
	prog, _ := ssautil.AllPackages(pkgs, ssa.InstantiateGenerics)
	p := &Program{Prog: prog, Roots: pkgs, ByPath: map[string]*ssa.Package{}, Intr: map[string]Intrinsic{}, Interpret: map[string]bool{}, Dir: dir}
	for _, sp := range prog.AllPackages() {
		p.ByPath[sp.Pkg.Path()] = sp
	}
	for _, rp := range pkgs {
		if sp := p.ByPath[rp.PkgPath]; sp != nil {
			sp.Build()
		}
		p.Files = append(p.Files, rp.GoFiles...)
	}
	p.MergeFns = map[string]bool{}
	for _, f := range DefaultMergeFns {
		p.MergeFns[f] = true
	}
	registerIntrinsics(p)
	p.LoadS = time.Since(t0).Seconds()
	return p, nil
}

// firstFull reports (once per obligation name) that a full model should be extracted.
func (p *Program) firstFull(name string) bool {
	p.mu.Lock()
	defer p.mu.Unlock()
	if p.fullDone == nil {
		p.fullDone = map[string]bool{}
	}
	if p.fullDone[name] {
		return false
	}
	p.fullDone[name] = true
	return true
}

// interpretFns are single functions of otherwise summarised packages that are executed
// from their SSA.
var interpretFns = map[string]bool{
	"encoding/binary.PutUvarint": true,
}

func (p *Program) shouldInterpret(fn *ssa.Function) bool {
	if interpretFns[fn.String()] {
		return true
	}
	if fn.Pkg == nil {
		// synthetic wrappers, bound-method closures, instantiations
		if fn.Synthetic != "" {
			if o := fn.Origin(); o != nil && o.Pkg != nil {
				return p.interpretPkg(o.Pkg.Pkg.Path())
			}
			return true
		}
		return false
	}
	return p.interpretPkg(fn.Pkg.Pkg.Path())
}

func (p *Program) interpretPkg(path string) bool {
	if strings.HasPrefix(path, RegenPrefix) {
		return true
	}
	return p.Interpret[path]
}

func (p *Program) FindFunc(pkgPath, name string) *ssa.Function {
	sp := p.ByPath[pkgPath]
	if sp == nil {
		return nil
	}
	sp.Build()
	return sp.Func(name)
}

// Harnesses lists functions named VerifHarness_* in the root packages.
func (p *Program) Harnesses() []*ssa.Function {
	var out []*ssa.Function
	for _, rp := range p.Roots {
		sp := p.ByPath[rp.PkgPath]
		if sp == nil {
			continue
		}
		for name, m := range sp.Members {
			if f, ok := m.(*ssa.Function); ok && strings.HasPrefix(name, "VerifHarness_") {
				out = append(out, f)
			}
		}
	}
	sort.Slice(out, func(i, j int) bool { return out[i].Name() < out[j].Name() })
	return out
}

func (p *Program) globalOverride(x *Exec, g *ssa.Global) (Value, bool) {
	// ORM module schema descriptors refer to generated file descriptors (set up by generated
	// init code): only their address is passed to the (modelled) database constructor
	if g.Name() == "ModuleSchema" && strings.HasPrefix(g.Pkg.Pkg.Path(), RegenPrefix) {
		return x.zero(g.Type().(*types.Pointer).Elem()), true
	}
	return nil, false
}

// fallback handles callees with neither a summary nor a body we interpret.
func (p *Program) fallback(x *Exec, fn *ssa.Function, args []Value, c *ssa.CallCommon) (Value, bool) {
	return nil, false
}

// ---- exploration

type Worker struct {
	procs map[string]*smt.Proc
	stats *smt.Stats
	cfg   *Config
}

func (w *Worker) proc(kind string) *smt.Proc {
	if p, ok := w.procs[kind]; ok && p != nil && !p.Dead() {
		return p
	}
	p, err := smt.StartProc(kind, w.cfg.TimeoutMs, w.stats)
	if err != nil {
		return nil
	}
	w.procs[kind] = p
	return p
}

func (w *Worker) close() {
	for _, p := range w.procs {
		p.Close()
	}
}

func (p *Program) procFor(x *Exec, kind string) *smt.Proc { return x.W.proc(kind) }

type PathRecord struct {
	Status string `json:"status"`
	Msg    string `json:"msg,omitempty"`
	Path   []int  `json:"path"`
}

type ObSummary struct {
	Name     string         `json:"name"`
	Paths    int            `json:"paths"`
	Unsat    int            `json:"unsat"`
	Sat      int            `json:"sat"`
	Unknown  int            `json:"unknown"`
	BySolver map[string]int `json:"by_solver"`
	FirstSat *ObResult      `json:"first_sat,omitempty"`
}

type HarnessResult struct {
	Name         string                `json:"name"`
	Paths        int                   `json:"paths"`
	Status       map[string]int        `json:"status"`
	Obligations  map[string]*ObSummary `json:"obligations"`
	Inconclusive []PathRecord          `json:"inconclusive,omitempty"`
	Panics       []PathRecord          `json:"panics,omitempty"`
	Funcs        map[string]int        `json:"functions_encoded"`
	Summaries    map[string]int        `json:"summaries_used"`
	Assumes      map[string]int        `json:"assumes"`
	Effects      []string              `json:"effects,omitempty"`
	Notes        []string              `json:"notes,omitempty"`
	Queries      map[string]int        `json:"queries"`
	SolverS      float64               `json:"solver_time_s"`
	MaxQueryS    float64               `json:"max_query_s"`
	WallS        float64               `json:"wall_s"`
	Steps        int                   `json:"ssa_instructions_executed"`
	FeasUnknown  int                   `json:"feasibility_unknown"`
	Samples      []string              `json:"samples,omitempty"`
	ForkSites    map[string]int        `json:"fork_sites,omitempty"`
	SlowSites    map[string]float64    `json:"slow_sites,omitempty"`
	SlowPath     []int                 `json:"slow_path,omitempty"`
}

type Hook func(x *Exec)

// RunHarness explores all paths of fn.
func (p *Program) RunHarness(fn *ssa.Function, cfg *Config, workers int) *HarnessResult {
	t0 := time.Now()
	res := &HarnessResult{Name: fn.Name(), Status: map[string]int{}, Obligations: map[string]*ObSummary{},
		Funcs: map[string]int{}, Summaries: map[string]int{}, Assumes: map[string]int{}, Queries: map[string]int{}, ForkSites: map[string]int{}, SlowSites: map[string]float64{}}
	stats := smt.NewStats()
	var mu sync.Mutex
	cond := sync.NewCond(&mu)
	work := [][]Decision{nil}
	if cfg.DebugPath != nil {
		var pre []Decision
		for _, v := range cfg.DebugPath {
			pre = append(pre, Decision{Val: v, N: 2, Fixed: true})
		}
		work = [][]Decision{pre}
		workers = 1
	}
	active := 0
	effects := map[string]bool{}
	notes := map[string]bool{}
	var wg sync.WaitGroup
	for wi := 0; wi < workers; wi++ {
		wg.Add(1)
		go func() {
			defer wg.Done()
			w := &Worker{procs: map[string]*smt.Proc{}, stats: stats, cfg: cfg}
			defer w.close()
			for {
				mu.Lock()
				if cfg.BudgetS > 0 && time.Since(t0).Seconds() > float64(cfg.BudgetS) && len(work) > 0 {
					res.Inconclusive = append(res.Inconclusive, PathRecord{Status: "unwind", Msg: fmt.Sprintf("time budget of %ds exhausted with %d paths still to explore", cfg.BudgetS, len(work))})
					res.Status["budget"] += len(work)
					work = nil
				}
				for len(work) == 0 && active > 0 {
					cond.Wait()
				}
				if len(work) == 0 {
					mu.Unlock()
					cond.Broadcast()
					return
				}
				prefix := work[len(work)-1]
				work = work[:len(work)-1]
				active++
				mu.Unlock()

				x, exit := p.runPath(fn, cfg, w, prefix)

				mu.Lock()
				active--
				res.Paths++
				res.Status[exit.Status]++
				res.Steps += x.Steps
				res.FeasUnknown += x.feasUnknown
				rec := PathRecord{Status: exit.Status, Msg: exit.Msg, Path: x.tracePath()}
				if exit.Status == "assume" && strings.Contains(exit.Msg, "stated loop bound") && len(res.Notes) < 5 {
					res.Notes = append(res.Notes, exit.Msg)
				}
				switch exit.Status {
				case "unsupported", "unwind", "engine-error":
					if len(res.Inconclusive) < 50 {
						res.Inconclusive = append(res.Inconclusive, rec)
					}
				case "panic":
					if len(res.Panics) < 50 {
						res.Panics = append(res.Panics, rec)
					}
				}
				for _, ob := range x.Obs {
					s := res.Obligations[ob.Name]
					if s == nil {
						s = &ObSummary{Name: ob.Name, BySolver: map[string]int{}}
						res.Obligations[ob.Name] = s
					}
					s.Paths++
					s.BySolver[ob.Solver]++
					switch ob.Verdict {
					case "unsat":
						s.Unsat++
					case "sat":
						s.Sat++
						if s.FirstSat == nil {
							o := ob
							s.FirstSat = &o
						}
					default:
						s.Unknown++
					}
				}
				for k, v := range x.Funcs {
					res.Funcs[k] += v
				}
				for k, v := range x.Summ {
					res.Summaries[k] += v
				}
				for k, v := range x.Assumes {
					res.Assumes[k] += v
				}
				for k, v := range x.ForkSites {
					res.ForkSites[k] += v
				}
				for k, v := range x.SlowSites {
					res.SlowSites[k] += v
				}
				if res.SlowPath == nil && x.SlowPath != nil {
					res.SlowPath = x.SlowPath
				}
				for _, e := range x.Effects {
					if e.Kind == "nondeterminism" || e.Kind == "map-range" {
						effects[e.Kind+": "+e.Name] = true
					}
				}
				for _, n := range x.Notes {
					notes[n] = true
				}
				for _, e := range x.S.Errors {
					notes["solver: "+e] = true
				}
				if cfg.DebugPath != nil {
					fmt.Printf("PATH END %s %s\n", exit.Status, exit.Msg)
					mu.Unlock()
					cond.Broadcast()
					continue
				}
				// schedule alternatives
				for i := len(prefix); i < len(x.Trace); i++ {
					d := x.Trace[i]
					if d.Fixed {
						continue
					}
					for alt := 0; alt < d.N; alt++ {
						if alt == d.Val {
							continue
						}
						np := make([]Decision, i+1)
						copy(np, x.Trace[:i])
						np[i] = Decision{Val: alt, N: d.N, Fixed: true}
						work = append(work, np)
					}
				}
				mu.Unlock()
				cond.Broadcast()
			}
		}()
	}
	wg.Wait()
	for k := range effects {
		res.Effects = append(res.Effects, k)
	}
	sort.Strings(res.Effects)
	for k := range notes {
		res.Notes = append(res.Notes, k)
	}
	sort.Strings(res.Notes)
	res.Queries = stats.Queries
	res.SolverS = stats.TimeS
	res.MaxQueryS = stats.MaxS
	res.WallS = time.Since(t0).Seconds()
	return res
}

func (p *Program) runPath(fn *ssa.Function, cfg *Config, w *Worker, prefix []Decision) (x *Exec, exit pathExit) {
	b := smt.NewBuilder()
	proc := w.proc(cfg.Solvers[0])
	if proc == nil {
		return &Exec{}, pathExit{"engine-error", "cannot start solver " + cfg.Solvers[0]}
	}
	x = &Exec{P: p, B: b, Cfg: cfg, prefix: prefix, W: w,
		gl: map[*ssa.Global]*Object{}, initFr: map[*ssa.Package]*Frame{},
		Reached: map[string]bool{}, Funcs: map[string]int{}, Summ: map[string]int{}, Assumes: map[string]int{},
		ForkSites: map[string]int{}, SlowSites: map[string]float64{}, errIDs: map[string]int{}, lenAxiom: map[int]bool{}, pow10Of: map[int]*smt.Term{}, constMemo: map[int]*smt.Term{}, localMerge: map[string]bool{}, localSumm: map[string]bool{}, linked: map[int]bool{}}
	if cfg.Debug && cfg.Transcript != "" {
		f, _ := os.Create(cfg.Transcript)
		proc.Log = f
	}
	x.S = smt.NewSession(proc, b)
	x.started = time.Now()
	x.Env = newEnv(x)
	defer func() {
		if r := recover(); r != nil {
			switch e := r.(type) {
			case pathExit:
				exit = e
			case goPanic:
				exit = pathExit{"panic", e.Msg}
			default:
				exit = pathExit{"engine-error", fmt.Sprintf("%v\n%s", r, stackTrace())}
			}
		}
		if proc != nil && len(x.S.Errors) > 0 && exit.Status == "ok" {
			exit = pathExit{"engine-error", "solver errors: " + strings.Join(x.S.Errors, "; ")}
		}
	}()
	x.CallFunction(fn, nil, nil)
	return x, pathExit{"ok", ""}
}

func stackTrace() string {
	buf := make([]byte, 1<<14)
	n := runtimeStack(buf)
	return string(buf[:n])
}

// OverlayFromDir maps every file below src onto the same relative path below dst.
func OverlayFromDir(src, dst string, into map[string][]byte) error {
	return filepath.Walk(src, func(path string, info os.FileInfo, err error) error {
		if err != nil {
			return err
		}
		if info.IsDir() {
			return nil
		}
		rel, _ := filepath.Rel(src, path)
		data, err := os.ReadFile(path)
		if err != nil {
			return err
		}
		into[filepath.Join(dst, rel)] = data
		return nil
	})
}

var _ = types.Typ
