package sym

import (
	"verif/engine/smt"
)

// Self-composition support for the determinism check (C10): the harness runs a handler
// twice from the same pre-state; map iteration orders and wall-clock reads are chosen
// independently in the two runs. EffectsSnapshot keeps the first run's effects (it is
// called before the rollback), SameEffects compares them with the second run's.

type effectsSnap struct {
	tables map[string][]*LogEntry
	bank   []BankEntry
	events []Value
}

func (x *Exec) effectsSnapshot() {
	e := x.Env
	s := &effectsSnap{tables: map[string][]*LogEntry{}}
	for k, ts := range e.Tables {
		from := x.snapLen(ts)
		s.tables[k] = append([]*LogEntry{}, ts.Log[from:]...)
	}
	if e.Bank != nil && e.snapshot != nil {
		s.bank = append([]BankEntry{}, e.Bank.Log[e.snapshot.bank:]...)
	}
	if e.snapshot != nil {
		s.events = append([]Value{}, e.Events[e.snapshot.events:]...)
	}
	e.saved = s
}

// sameEffects: final table contents, final bank balances/supply and the event sequence of
// the current run equal those of the saved run. Store writes of one message reach the
// commitment store sorted by key (cachekv), so final contents are what is observable of the
// tables; events are compared in order.
func (x *Exec) sameEffects() *smt.Term {
	B := x.B
	e := x.Env
	if e.saved == nil {
		x.Unsupported("SameEffects without EffectsSnapshot")
	}
	cond := B.True
	for _, key := range e.Order {
		ts := e.Tables[key]
		from := x.snapLen(ts)
		log2 := append([]*LogEntry{}, ts.Log[from:]...)
		log1 := e.saved.tables[key]
		var keys [][]*smt.Term
		for _, le := range log1 {
			keys = append(keys, le.PK)
		}
		for _, le := range log2 {
			keys = append(keys, le.PK)
		}
		for _, k := range keys {
			n2 := len(ts.Log)
			ex2 := ts.existsAt(x, k, n2)
			lv2 := ts.rowLeavesAt(x, k, n2)
			// evaluate under the first run's log
			full := ts.Log
			ts.Log = append(append([]*LogEntry{}, full[:from]...), log1...)
			ex1 := ts.existsAt(x, k, len(ts.Log))
			lv1 := ts.rowLeavesAt(x, k, len(ts.Log))
			ts.Log = full
			same := B.True
			for j := range lv1 {
				same = B.And(same, B.Eq(lv1[j], lv2[j]))
			}
			cond = B.And(cond, B.And(B.Eq(ex1, ex2), B.Implies(ex1, same)))
		}
	}
	if e.Bank != nil && e.snapshot != nil {
		from := e.snapshot.bank
		log2 := append([]BankEntry{}, e.Bank.Log[from:]...)
		all := append(append([]BankEntry{}, e.saved.bank...), log2...)
		for _, be := range all {
			v2 := x.bankReadAt(be.Supply, be.Key, len(e.Bank.Log))
			full := e.Bank.Log
			e.Bank.Log = append(append([]BankEntry{}, full[:from]...), e.saved.bank...)
			v1 := x.bankReadAt(be.Supply, be.Key, len(e.Bank.Log))
			e.Bank.Log = full
			cond = B.And(cond, B.Eq(v1, v2))
		}
	}
	if e.snapshot != nil {
		ev2 := e.Events[e.snapshot.events:]
		ev1 := e.saved.events
		if len(ev1) != len(ev2) {
			return B.False
		}
		for i := range ev1 {
			var t1, t2 []*smt.Term
			s1 := x.flattenLeaves(ev1[i], &t1, 0)
			s2 := x.flattenLeaves(ev2[i], &t2, 0)
			if s1 != s2 || len(t1) != len(t2) {
				return B.False
			}
			for j := range t1 {
				if t1[j].Sort != t2[j].Sort {
					return B.False
				}
				cond = B.And(cond, B.Eq(t1[j], t2[j]))
			}
		}
	}
	return cond
}

// markProcessState marks everything reachable from v as per-process state.
func (x *Exec) markProcessState(v Value, depth int) {
	if depth > 8 {
		return
	}
	switch u := v.(type) {
	case PtrV:
		if u.Obj != nil && !u.Obj.Proc {
			u.Obj.Proc = true
			x.markProcessState(u.Obj.Val, depth+1)
		}
	case MapV:
		if u.Obj != nil && !u.Obj.Proc {
			u.Obj.Proc = true
			if md, ok := u.Obj.Val.(*MapData); ok {
				for _, en := range md.Entries {
					x.markProcessState(en.V, depth+1)
				}
			}
		}
	case SliceV:
		if u.Arr != nil && !u.Arr.Proc {
			u.Arr.Proc = true
			x.markProcessState(u.Arr.Val, depth+1)
		}
	case StructV:
		for _, f := range u.F {
			x.markProcessState(f, depth+1)
		}
	case ArrayV:
		for _, f := range u.E {
			x.markProcessState(f, depth+1)
		}
	case IfaceV:
		x.markProcessState(u.V, depth+1)
	}
}

func (x *Exec) countEffects(kinds ...string) int {
	n := 0
	for _, ef := range x.Effects {
		for _, k := range kinds {
			if ef.Kind == k {
				n++
			}
		}
	}
	return n
}
