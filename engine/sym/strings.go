package sym

import (
	"fmt"
	"go/token"
	"go/types"
	"unicode/utf8"

	"verif/engine/smt"
)

func (x *Exec) strAtomTerm(s StrV) *smt.Term {
	if s.IsConst {
		return x.B.StrConst(s.S)
	}
	if s.Atom != nil {
		return s.Atom
	}
	return nil
}

// contentAtom maps a content string (concrete length, symbolic bytes) injectively into
// the opaque sort, so that it can be stored in tables and compared with other atoms:
// atom(b1..bn) = atom(c1..cn) iff all bytes are equal; different lengths are different.
func (x *Exec) contentAtom(bs []*smt.Term) *smt.Term {
	B := x.B
	w := x.normStr(bs)
	if w.IsConst {
		return B.StrConst(w.S)
	}
	n := len(bs)
	t := B.App(fmt.Sprintf("content_%d", n), smt.SStr, bs...)
	if x.lenAxiom[t.ID] {
		return t
	}
	x.lenAxiom[t.ID] = true
	ax := []*smt.Term{B.Eq(x.atomLen(t), B.Int(int64(n)))}
	for _, o := range x.contentAtoms {
		if len(o.Args) != n {
			ax = append(ax, B.Not(B.Eq(t, o)))
			continue
		}
		eq := B.True
		for i := range bs {
			eq = B.And(eq, B.Eq(bs[i], o.Args[i]))
		}
		ax = append(ax, B.Eq(B.Eq(t, o), eq))
	}
	x.contentAtoms = append(x.contentAtoms, t)
	x.Assume(B.And(ax...), "content string as atom (injective)")
	return t
}

func (x *Exec) contentOf(s StrV) ([]*smt.Term, bool) {
	if s.IsConst {
		bs := make([]*smt.Term, len(s.S))
		for i := 0; i < len(s.S); i++ {
			bs[i] = x.B.Int(int64(s.S[i]))
		}
		return bs, true
	}
	if s.Atom != nil {
		return nil, false
	}
	return s.Bytes, true
}

// normStr turns an all-constant content string into a Go constant.
func (x *Exec) normStr(bs []*smt.Term) StrV {
	buf := make([]byte, len(bs))
	for i, b := range bs {
		c, ok := b.ConstInt64()
		if !ok {
			return StrV{Bytes: bs}
		}
		buf[i] = byte(c)
	}
	return StrV{IsConst: true, S: string(buf)}
}

func (x *Exec) stringEq(a, b StrV) *smt.Term {
	B := x.B
	if a.IsConst && b.IsConst {
		return B.Bool(a.S == b.S)
	}
	if a.Atom != nil || b.Atom != nil {
		ta, tb := x.strAtomTerm(a), x.strAtomTerm(b)
		if ta == nil {
			ta = x.contentAtom(a.Bytes)
		}
		if tb == nil {
			tb = x.contentAtom(b.Bytes)
		}
		return B.Eq(ta, tb)
	}
	ca, _ := x.contentOf(a)
	cb, _ := x.contentOf(b)
	if len(ca) != len(cb) {
		return B.False
	}
	r := B.True
	for i := range ca {
		r = B.And(r, B.Eq(ca[i], cb[i]))
	}
	return r
}

func (x *Exec) stringLen(s StrV) *smt.Term {
	if s.IsConst {
		return x.B.Int(int64(len(s.S)))
	}
	if s.Atom != nil {
		return x.atomLen(s.Atom)
	}
	return x.B.Int(int64(len(s.Bytes)))
}

func (x *Exec) stringConcat(a, b StrV) StrV {
	if a.IsConst && b.IsConst {
		return StrV{IsConst: true, S: a.S + b.S}
	}
	if a.IsConst && a.S == "" {
		return b
	}
	if b.IsConst && b.S == "" {
		return a
	}
	if a.Atom != nil || b.Atom != nil {
		ta, tb := x.strAtomTerm(a), x.strAtomTerm(b)
		if ta == nil || tb == nil {
			x.Unsupported("concatenation of an opaque string with a content string")
		}
		t := x.B.App("cat", smt.SStr, ta, tb)
		if !x.lenAxiom[t.ID] {
			x.lenAxiom[t.ID] = true
			x.Assume(x.B.Eq(x.atomLen(t), x.B.Add(x.atomLen(ta), x.atomLen(tb))), "len(cat)")
		}
		return StrV{Atom: t}
	}
	ca, _ := x.contentOf(a)
	cb, _ := x.contentOf(b)
	out := make([]*smt.Term, 0, len(ca)+len(cb))
	out = append(out, ca...)
	out = append(out, cb...)
	return StrV{Bytes: out}
}

func (x *Exec) stringBinop(op token.Token, a, b StrV) Value {
	B := x.B
	switch op {
	case token.EQL:
		return BoolV{x.stringEq(a, b)}
	case token.NEQ:
		return BoolV{B.Not(x.stringEq(a, b))}
	case token.ADD:
		return x.stringConcat(a, b)
	case token.LSS, token.LEQ, token.GTR, token.GEQ:
		if a.IsConst && b.IsConst {
			var r bool
			switch op {
			case token.LSS:
				r = a.S < b.S
			case token.LEQ:
				r = a.S <= b.S
			case token.GTR:
				r = a.S > b.S
			case token.GEQ:
				r = a.S >= b.S
			}
			return BoolV{B.Bool(r)}
		}
		if a.Atom != nil || b.Atom != nil {
			ta, tb := x.strAtomTerm(a), x.strAtomTerm(b)
			if ta == nil || tb == nil {
				x.Unsupported("ordering of an opaque string with a content string")
			}
			lt := x.strLess(ta, tb)
			switch op {
			case token.LSS:
				return BoolV{lt}
			case token.LEQ:
				return BoolV{B.Or(lt, B.Eq(ta, tb))}
			case token.GTR:
				return BoolV{x.strLess(tb, ta)}
			default:
				return BoolV{B.Or(x.strLess(tb, ta), B.Eq(ta, tb))}
			}
		}
		ca, _ := x.contentOf(a)
		cb, _ := x.contentOf(b)
		lt := x.contentLess(ca, cb)
		eq := x.stringEq(a, b)
		switch op {
		case token.LSS:
			return BoolV{lt}
		case token.LEQ:
			return BoolV{B.Or(lt, eq)}
		case token.GTR:
			return BoolV{B.And(B.Not(lt), B.Not(eq))}
		default:
			return BoolV{B.Not(lt)}
		}
	}
	x.Unsupported("string operator %v", op)
	return nil
}

// strLess is a strict total order on atoms, given by an injective rank into the integers.
func (x *Exec) strLess(a, b *smt.Term) *smt.Term {
	return x.B.Lt(x.strRank(a), x.strRank(b))
}

func (x *Exec) strRank(a *smt.Term) *smt.Term {
	// rank is injective: rankInv(rank(s)) = s, instantiated per term
	r := x.B.App("strrank", smt.SInt, a)
	if !x.lenAxiom[r.ID] {
		x.lenAxiom[r.ID] = true
		x.Assume(x.B.Eq(x.B.App("strrankinv", smt.SStr, r), a), "strrank injective")
	}
	return r
}

func (x *Exec) contentLess(a, b []*smt.Term) *smt.Term {
	B := x.B
	n := len(a)
	if len(b) < n {
		n = len(b)
	}
	// lexicographic
	r := B.Bool(len(a) < len(b))
	for i := n - 1; i >= 0; i-- {
		r = B.Or(B.Lt(a[i], b[i]), B.And(B.Eq(a[i], b[i]), r))
	}
	return r
}

func (x *Exec) stringIndex(s StrV, idx Value) Value {
	B := x.B
	bs, ok := x.contentOf(s)
	if !ok {
		x.Unsupported("index into an opaque string")
	}
	it := idx.(IntV).T
	if k, ok := it.ConstInt64(); ok {
		if k < 0 || int(k) >= len(bs) {
			panic(goPanic{Msg: "string index out of range"})
		}
		return IntV{bs[k]}
	}
	if x.Branch(B.Or(B.Lt(it, B.Int(0)), B.Ge(it, B.Int(int64(len(bs)))))) {
		panic(goPanic{Msg: "string index out of range"})
	}
	r := bs[len(bs)-1]
	for k := len(bs) - 2; k >= 0; k-- {
		r = B.Ite(B.Eq(it, B.Int(int64(k))), bs[k], r)
	}
	return IntV{r}
}

func (x *Exec) stringSlice(s StrV, lo, hi int) Value {
	if s.Atom != nil {
		if lo <= 0 && hi < 0 {
			return s
		}
		x.Unsupported("slicing an opaque string")
	}
	bs, _ := x.contentOf(s)
	if lo < 0 {
		lo = 0
	}
	if hi < 0 {
		hi = len(bs)
	}
	if lo > hi || hi > len(bs) {
		panic(goPanic{Msg: "string slice bounds out of range"})
	}
	if s.IsConst {
		return StrV{IsConst: true, S: s.S[lo:hi]}
	}
	return x.normStr(bs[lo:hi])
}

func (x *Exec) bytesToString(u SliceV) Value {
	if u.Atom != nil {
		return StrV{Atom: u.Atom}
	}
	if u.Nil || u.Len == 0 {
		return StrV{IsConst: true, S: ""}
	}
	es := x.sliceElems(u)
	bs := make([]*smt.Term, len(es))
	for i, e := range es {
		iv, ok := e.(IntV)
		if !ok {
			x.Unsupported("string conversion of []%T", e)
		}
		bs[i] = iv.T
	}
	return x.normStr(bs)
}

func (x *Exec) stringToBytes(s StrV) Value {
	if s.Atom != nil {
		return SliceV{Atom: s.Atom}
	}
	bs, _ := x.contentOf(s)
	es := make([]Value, len(bs))
	for i, b := range bs {
		es[i] = IntV{b}
	}
	if len(es) == 0 {
		return SliceV{Arr: x.newObj(ArrayV{nil}, "bytes"), Len: 0, Cap: 0}
	}
	return x.mkSlice(es)
}

func (x *Exec) stringToRunes(s StrV) Value {
	if s.IsConst {
		var es []Value
		for _, r := range s.S {
			es = append(es, IntV{x.B.Int(int64(r))})
		}
		return x.mkSlice(es)
	}
	bs, ok := x.contentOf(s)
	if !ok {
		x.Unsupported("[]rune of an opaque string")
	}
	es := make([]Value, len(bs))
	for i, b := range bs {
		x.asciiOnly(b)
		es[i] = IntV{b}
	}
	return x.mkSlice(es)
}

// asciiOnly restricts a content byte to ASCII. This is a stated bound of every
// content-level check ("ASCII strings"); the cut is counted under the label "ascii-only".
func (x *Exec) asciiOnly(b *smt.Term) {
	if b.Hi != nil && b.Hi.IsInt64() && b.Hi.Int64() < 128 {
		return
	}
	if x.merge != nil {
		x.merge.conds = append(x.merge.conds, x.B.Lt(b, x.B.Int(128)))
		return
	}
	if !x.Branch(x.B.Lt(b, x.B.Int(128))) {
		x.Assumes["ascii-only"]++
		x.exit("assume", "ascii-only")
	}
}

func (x *Exec) stringRangeNext(it *rangeIter) Value {
	B := x.B
	s := it.Str
	if s.IsConst {
		if it.Pos >= len(s.S) {
			return TupleV{BoolV{B.False}, IntV{B.Int(0)}, IntV{B.Int(0)}}
		}
		r, w := utf8.DecodeRuneInString(s.S[it.Pos:])
		p := it.Pos
		it.Pos += w
		return TupleV{BoolV{B.True}, IntV{B.Int(int64(p))}, IntV{B.Int(int64(r))}}
	}
	bs, ok := x.contentOf(s)
	if !ok {
		x.Unsupported("range over an opaque string")
	}
	if it.Pos >= len(bs) {
		return TupleV{BoolV{B.False}, IntV{B.Int(0)}, IntV{B.Int(0)}}
	}
	b := bs[it.Pos]
	p := it.Pos
	it.Pos++
	r := b
	if !(b.Hi != nil && b.Hi.IsInt64() && b.Hi.Int64() < 128) {
		// a byte >= 0x80 belongs to a multi-byte (or invalid) sequence: the loop sees some rune
		// >= 0x80 (U+FFFD or a decoded code point). Each such byte is treated as one such rune.
		big := x.boundedVar(fmt.Sprintf("rune_of_t%d", b.ID), bigInt(128), bigInt(0x10FFFF), "non-ascii rune")
		r = B.Ite(B.Lt(b, B.Int(128)), b, big)
	}
	return TupleV{BoolV{B.True}, IntV{B.Int(int64(p))}, IntV{r}}
}

var _ = types.Typ
