package sym

import (
	"fmt"
	"go/types"
	"regexp"
	"strings"

	"golang.org/x/tools/go/ssa"

	"verif/engine/smt"
)

// ufSummaryCall replaces a call of a pure, deterministic function by uninterpreted
// functions of the scalar leaves of its arguments (zz.Summarize in the harness). It is an
// assume/guarantee step: what the function really computes is decided by the harnesses
// that execute it (e.g. the C15 kernels for ContentHash.ToIRI); here only "same inputs,
// same outputs" is used. Every use is listed in the evidence under summaries_used.
func (x *Exec) ufSummaryCall(fn *ssa.Function, args []Value) Value {
	var ts []*smt.Term
	shape := ""
	for _, a := range args {
		shape += x.flattenLeaves(a, &ts, 0)
	}
	base := "summ_" + sanitizeName(fn.String()) + "_" + sanitizeName(shape)
	sig := fn.Signature
	res := sig.Results()
	mk := func(i int) Value {
		t := res.At(i).Type()
		name := fmt.Sprintf("%s_%d", base, i)
		if types.IsInterface(t) && typeName(t) == "error" {
			c := x.B.App(name+"_err", smt.SBool, ts...)
			return CondErrV{Cond: c, E: x.newErr("summary:"+fn.String(), "")}
		}
		switch u := t.Underlying().(type) {
		case *types.Pointer:
			// an opaque object: callers of summarised functions may only pass it on or drop it
			x.objN++
			return PtrV{Obj: x.newObj(OpaqueV{Kind: "summary-object", ID: x.objN}, name)}
		case *types.Slice:
			return SliceV{Atom: x.B.App(name, smt.SStr, ts...)}
		case *types.Basic:
			switch {
			case u.Info()&types.IsString != 0:
				return StrV{Atom: x.B.App(name, smt.SStr, ts...)}
			case u.Info()&types.IsBoolean != 0:
				return BoolV{x.B.App(name, smt.SBool, ts...)}
			case u.Info()&types.IsInteger != 0:
				return IntV{x.B.App(name, smt.SInt, ts...)}
			}
		}
		x.Unsupported("summarised function %s returns %v", fn, t)
		return nil
	}
	switch res.Len() {
	case 0:
		return nil
	case 1:
		return mk(0)
	}
	tv := make(TupleV, res.Len())
	for i := range tv {
		tv[i] = mk(i)
	}
	return tv
}

var nonIdent = regexp.MustCompile(`[^A-Za-z0-9]+`)

func sanitizeName(s string) string {
	return strings.Trim(nonIdent.ReplaceAllString(s, "_"), "_")
}

// flattenLeaves appends the scalar leaves of v and returns a description of its shape
// (nil-ness of pointers, dynamic types), which becomes part of the function name.
func (x *Exec) flattenLeaves(v Value, ts *[]*smt.Term, depth int) string {
	if depth > 6 {
		x.Unsupported("summarised call: argument nested too deeply")
	}
	switch u := v.(type) {
	case nil:
		return "z"
	case IntV:
		*ts = append(*ts, u.T)
		return "i"
	case BoolV:
		*ts = append(*ts, u.T)
		return "b"
	case StrV:
		*ts = append(*ts, x.strAtomTerm(u))
		return "s"
	case SliceV:
		if u.Nil {
			return "n"
		}
		if u.Atom == nil && u.Len > 0 {
			if es := x.sliceElems(u); len(es) > 0 {
				if _, isByte := es[0].(IntV); !isByte {
					// a slice of other values: its elements, with the length in the shape
					s := fmt.Sprintf("L%d", len(es))
					for _, e := range es {
						s += x.flattenLeaves(e, ts, depth+1)
					}
					return s + "E"
				}
			}
		}
		*ts = append(*ts, x.bytesTerm(u))
		return "y"
	case PtrV:
		if u.Obj == nil {
			return "n"
		}
		if u.Cond != nil {
			x.Unsupported("summarised call: optional pointer argument")
		}
		return "p" + x.flattenLeaves(x.load(u), ts, depth+1)
	case StructV:
		s := "S"
		for _, f := range u.F {
			s += x.flattenLeaves(f, ts, depth+1)
		}
		return s + "E"
	case IfaceV:
		if u.T == nil {
			return "n"
		}
		return "I" + sanitizeName(u.T.String()) + x.flattenLeaves(u.V, ts, depth+1)
	}
	x.Unsupported("summarised call: argument of kind %T", v)
	return ""
}
