// Package sym is a path-wise symbolic executor for go/ssa.
//
// Control and heap are concrete on each path; scalar leaves are SMT terms. Paths are
// enumerated by re-execution under a decision prefix (see explore.go), so the heap and all
// environment models are ordinary mutable Go objects.
package sym

import (
	"fmt"
	"go/types"

	"golang.org/x/tools/go/ssa"

	"verif/engine/smt"
)

type Value interface{}

// IntV is a Go machine integer (any width); T has sort Int and is kept normalised to the
// range of its static type by the instruction that produced it.
type IntV struct{ T *smt.Term }

type BoolV struct{ T *smt.Term }

// FloatV: floating point never reaches the solver in the code under test; concrete only.
type FloatV struct{ F float64 }

// StrV is a Go string in one of three representations.
type StrV struct {
	IsConst bool
	S       string      // IsConst
	Atom    *smt.Term   // opaque symbolic string (sort Str)
	Bytes   []*smt.Term // content string: concrete length, symbolic bytes (Int 0..255)
}

func (s StrV) Kind() string {
	if s.IsConst {
		return "const"
	}
	if s.Atom != nil {
		return "atom"
	}
	return "content"
}

// Object is a heap cell.
type Object struct {
	ID    int
	Val   Value
	Label string
	// Proc: the object is per-process state (a package-level variable, memory allocated by a
	// package initialiser, or memory marked with zz.ProcessState): it survives from one
	// message to the next and is lost on restart, so handlers must not write to it
	Proc bool
}

// PtrV points into an object along a path of field/element indices. Obj == nil is nil.
type PtrV struct {
	Obj  *Object
	Path []int
	// Cond, when set, is the condition under which the pointer is non-nil (optional message
	// fields of rows read from a table keep their presence symbolic until it matters).
	Cond *smt.Term
}

type StructV struct{ F []Value }

type ArrayV struct{ E []Value }

// SliceV: concrete offset/len/cap over an array object; or an opaque byte-string atom.
type SliceV struct {
	Arr  *Object // Val is ArrayV
	Off  int
	Len  int
	Cap  int
	Atom *smt.Term // opaque []byte (sort Str); Arr == nil
	Nil  bool
}

type IfaceV struct {
	T types.Type // dynamic type; nil for the nil interface
	V Value
}

type FuncV struct {
	Fn   *ssa.Function
	Bind []Value
	// Builtin closures created by the engine (model callbacks).
	Native func(x *Exec, args []Value) Value
	Name   string
}

type MapEntry struct {
	K Value
	V Value
}

type MapData struct {
	Entries []MapEntry // concrete keys only (strings constants / ints / atoms compared by term identity forks)
	Nil     bool
}

type MapV struct{ Obj *Object } // Obj.Val is *MapData; Obj == nil is a nil map

type TupleV []Value

// BufContent is what a big.Int buffer holds: a plain magnitude, or the deferred
// coefficient of a decimal with value magnitude V (Real) and exponent E: |coeff| = V*10^-E.
type BufContent struct {
	Mag *smt.Term // Int, >= 0 (nil if deferred)
	V   *smt.Term // Real magnitude of the decimal
	E   *smt.Term // Int exponent
}

// BigV is a math/big.Int struct value: sign flag plus a (shared) buffer.
type BigV struct {
	Neg *smt.Term // Bool
	Buf *Object   // Val is BufContent; nil buffer = zero
}

// TimeV is a time.Time: instant as (unix seconds, nanoseconds in [0,1e9)), always UTC.
type TimeV struct {
	Sec  *smt.Term
	Nsec *smt.Term
}

// ErrV is an error value: root identity is what errors.Is compares.
type ErrV struct {
	Root  string // registered error identity ("" for ad-hoc errors)
	ID    int    // object identity for ==
	Depth int    // 0 = the registered error itself
	Msg   string
}

// CondErrV is an error whose nil-ness is symbolic: it is non-nil exactly when Cond holds.
// It arises from merging the results of a pure callee; Mixed means the merged non-nil
// outcomes had different roots (so the root must not be inspected).
type CondErrV struct {
	Cond  *smt.Term
	E     ErrV
	Mixed bool
}

// ModelV is a value implemented by an engine-side model (ORM tables, bank, context ...).
type ModelV struct{ M Model }

type Model interface {
	Invoke(x *Exec, method string, args []Value, call *ssa.CallCommon) Value
	ModelName() string
}

// RegexpV is a compiled regular expression (pattern known).
type RegexpV struct{ Pattern string }

// OpaqueV is a value of a type the engine does not look into (kept for identity only).
type OpaqueV struct {
	Kind string
	ID   int
	Data interface{}
	// Names: field names of the struct Data points to (ORM pagination option)
	Names []string
}

type NilV struct{} // untyped nil placeholder (zero of pointer/slice/map/iface/func handled per type)

func (x *Exec) zero(t types.Type) Value {
	b := x.B
	switch u := t.Underlying().(type) {
	case *types.Basic:
		switch {
		case u.Info()&types.IsBoolean != 0:
			return BoolV{b.False}
		case u.Info()&types.IsInteger != 0:
			return IntV{b.Int(0)}
		case u.Info()&types.IsString != 0:
			return StrV{IsConst: true, S: ""}
		case u.Info()&types.IsFloat != 0:
			return FloatV{0}
		case u.Kind() == types.UnsafePointer:
			return PtrV{}
		}
	case *types.Pointer:
		return PtrV{}
	case *types.Slice:
		return SliceV{Nil: true}
	case *types.Map:
		return MapV{}
	case *types.Interface:
		return IfaceV{}
	case *types.Signature:
		return FuncV{}
	case *types.Chan:
		return OpaqueV{Kind: "chan"}
	case *types.Struct:
		if v, ok := x.zeroSpecial(t); ok {
			return v
		}
		f := make([]Value, u.NumFields())
		for i := range f {
			f[i] = x.zero(u.Field(i).Type())
		}
		return StructV{f}
	case *types.Array:
		e := make([]Value, int(u.Len()))
		for i := range e {
			e[i] = x.zero(u.Elem())
		}
		return ArrayV{e}
	case *types.Tuple:
		tv := make(TupleV, u.Len())
		for i := range tv {
			tv[i] = x.zero(u.At(i).Type())
		}
		return tv
	}
	panic(fmt.Sprintf("zero: unsupported type %v", t))
}

func typeName(t types.Type) string {
	if n, ok := t.(*types.Named); ok {
		if n.Obj().Pkg() != nil {
			return n.Obj().Pkg().Path() + "." + n.Obj().Name()
		}
		return n.Obj().Name()
	}
	if a, ok := t.(*types.Alias); ok {
		return typeName(types.Unalias(a))
	}
	return t.String()
}

// zeroSpecial gives primitive library types their engine representation.
func (x *Exec) zeroSpecial(t types.Type) (Value, bool) {
	switch typeName(t) {
	case "math/big.Int":
		return BigV{Neg: x.B.False}, true
	case "time.Time":
		// the zero time.Time is year 1; seconds since unix epoch = -62135596800
		return TimeV{Sec: x.B.Int(-62135596800), Nsec: x.B.Int(0)}, true
	}
	return nil, false
}

func isNilValue(v Value) (bool, bool) {
	switch u := v.(type) {
	case PtrV:
		return u.Obj == nil, true
	case SliceV:
		return u.Nil, true
	case MapV:
		return u.Obj == nil, true
	case IfaceV:
		return u.T == nil && u.V == nil, true
	case FuncV:
		return u.Fn == nil && u.Native == nil, true
	case ErrV, ModelV, *ErrV:
		return false, true
	case NilV:
		return true, true
	case nil:
		return true, true
	}
	return false, false
}
