// demo_zero_fee_test.go
//
// PLACEMENT: this file must be placed in
//
//	x/ecocredit/server/tests/            (package tests)
//
// of the regen-ledger repository (Go module github.com/regen-network/regen-ledger/x/ecocredit/v3,
// which has its own go.mod). Run with:
//
//	cd x/ecocredit && go test -vet=off -count=1 -run TestDemoZero -v ./server/tests/
//
// PURPOSE: demonstrates that a *zero-amount* fee coin stored in the singleton
// tables `regen.ecocredit.v1.ClassFee` / `regen.ecocredit.basket.v1.BasketFee`
// (which ClassFee.Validate / BasketFee.Validate and therefore genesis validation
// accept) makes Msg/CreateClass and basket Msg/Create impossible to execute,
// using the REAL cosmos-sdk x/auth and x/bank keepers (no gomock).
//
// The tests are written so that they FAIL (t.Errorf) whenever a creation is
// rejected under a zero fee. A PASS therefore means the hypothesis is wrong.
// Control sub-tests ("control_*") run the identical flow with the fee unset and
// with a fee of 1uregen; these must succeed and show the fixture itself is sound.
//
//nolint:revive,stylecheck
package tests

import (
	"encoding/json"
	"testing"

	"github.com/stretchr/testify/require"

	"github.com/cosmos/cosmos-sdk/codec"
	"github.com/cosmos/cosmos-sdk/crypto/keys/secp256k1"
	storetypes "github.com/cosmos/cosmos-sdk/store/types"
	sdk "github.com/cosmos/cosmos-sdk/types"
	sdkmodules "github.com/cosmos/cosmos-sdk/types/module"
	authkeeper "github.com/cosmos/cosmos-sdk/x/auth/keeper"
	authtypes "github.com/cosmos/cosmos-sdk/x/auth/types"
	bankkeeper "github.com/cosmos/cosmos-sdk/x/bank/keeper"
	banktypes "github.com/cosmos/cosmos-sdk/x/bank/types"
	disttypes "github.com/cosmos/cosmos-sdk/x/distribution/types"
	govtypes "github.com/cosmos/cosmos-sdk/x/gov/types"
	minttypes "github.com/cosmos/cosmos-sdk/x/mint/types"
	paramstypes "github.com/cosmos/cosmos-sdk/x/params/types"
	params "github.com/cosmos/cosmos-sdk/x/params/types/proposal"

	"github.com/regen-network/regen-ledger/types/v2/testutil/fixture"
	ecocredittypes "github.com/regen-network/regen-ledger/x/ecocredit/v3"
	basetypes "github.com/regen-network/regen-ledger/x/ecocredit/v3/base/types/v1"
	"github.com/regen-network/regen-ledger/x/ecocredit/v3/basket"
	baskettypes "github.com/regen-network/regen-ledger/x/ecocredit/v3/basket/types/v1"
	"github.com/regen-network/regen-ledger/x/ecocredit/v3/marketplace"
	ecocredit "github.com/regen-network/regen-ledger/x/ecocredit/v3/module"
)

// demoEnv is one fully wired fixture: real auth keeper, real bank keeper, real
// ecocredit module, genesis initialised from ORM JSON.
type demoEnv struct {
	t       *testing.T
	fix     fixture.Fixture
	sdkCtx  sdk.Context
	mod     *ecocredit.Module
	bank    bankkeeper.BaseKeeper
	signers []sdk.AccAddress
	base    basetypes.MsgClient
	basket  baskettypes.MsgClient
}

// newDemoEnv is the same wiring as NewEcocreditModule in utils.go, except that it
// keeps a handle on the (real) bank keeper so that accounts can be funded.
func newDemoEnv(t *testing.T, ecocreditGenesis map[string]interface{}) *demoEnv {
	t.Helper()

	ff := fixture.NewFixtureFactory(t, 2)
	baseApp := ff.BaseApp()
	cdc := ff.Codec()
	amino := codec.NewLegacyAmino()

	authtypes.RegisterInterfaces(cdc.InterfaceRegistry())
	params.RegisterInterfaces(cdc.InterfaceRegistry())

	authKey := sdk.NewKVStoreKey(authtypes.StoreKey)
	ecocreditKey := sdk.NewKVStoreKey(ecocredittypes.ModuleName)
	bankKey := sdk.NewKVStoreKey(banktypes.StoreKey)
	distKey := sdk.NewKVStoreKey(disttypes.StoreKey)
	paramsKey := sdk.NewKVStoreKey(paramstypes.StoreKey)
	tkey := sdk.NewTransientStoreKey(paramstypes.TStoreKey)

	baseApp.MountStore(authKey, storetypes.StoreTypeIAVL)
	baseApp.MountStore(ecocreditKey, storetypes.StoreTypeIAVL)
	baseApp.MountStore(bankKey, storetypes.StoreTypeIAVL)
	baseApp.MountStore(distKey, storetypes.StoreTypeIAVL)
	baseApp.MountStore(paramsKey, storetypes.StoreTypeIAVL)
	baseApp.MountStore(tkey, storetypes.StoreTypeTransient)

	ecocreditSubspace := paramstypes.NewSubspace(cdc, amino, paramsKey, tkey, ecocredittypes.ModuleName)

	maccPerms := map[string][]string{
		minttypes.ModuleName:       {authtypes.Minter},
		ecocredittypes.ModuleName:  {authtypes.Burner},
		basket.BasketSubModuleName: {authtypes.Burner, authtypes.Minter},
		marketplace.FeePoolName:    {authtypes.Burner},
	}

	govAddr := authtypes.NewModuleAddress(govtypes.ModuleName)
	accountKeeper := authkeeper.NewAccountKeeper(
		cdc, authKey, authtypes.ProtoBaseAccount,
		maccPerms, "regen", govAddr.String())
	bankKeeper := bankkeeper.NewBaseKeeper(cdc, bankKey, accountKeeper, nil, govAddr.String())

	mod := ecocredit.NewModule(ecocreditKey, govAddr, accountKeeper, bankKeeper, ecocreditSubspace, nil)
	mod.RegisterInterfaces(cdc.InterfaceRegistry())
	ff.SetModules([]sdkmodules.AppModule{mod})

	fix := ff.Setup()
	sdkCtx := sdk.UnwrapSDKContext(fix.Context())

	bz, err := json.Marshal(ecocreditGenesis)
	require.NoError(t, err)
	t.Logf("ecocredit genesis JSON: %s", bz)

	// the same check `regen validate-genesis` / InitChain performs for this module
	err = mod.ValidateGenesis(cdc, nil, bz)
	t.Logf("Module.ValidateGenesis(genesis) error: %v", err)
	require.NoError(t, err, "genesis validation is expected to ACCEPT this state")

	_, err = fix.InitGenesis(sdkCtx, map[string]json.RawMessage{ecocredittypes.ModuleName: bz})
	require.NoError(t, err)

	e := &demoEnv{
		t:       t,
		fix:     fix,
		sdkCtx:  sdkCtx,
		mod:     mod,
		bank:    bankKeeper,
		signers: fix.Signers(),
		base:    basetypes.NewMsgClient(fix.TxConn()),
		basket:  baskettypes.NewMsgClient(fix.TxConn()),
	}

	require.Equal(t, demoCreator(t).String(), e.signers[0].String(), "creator must be fixture signer 0")

	// plenty of uregen for the creator
	funds := sdk.NewCoins(sdk.NewInt64Coin("uregen", 1_000_000_000))
	require.NoError(t, bankKeeper.MintCoins(sdkCtx, minttypes.ModuleName, funds))
	require.NoError(t, bankKeeper.SendCoinsFromModuleToAccount(sdkCtx, minttypes.ModuleName, e.signers[0], funds))
	t.Logf("creator %s balance: %s", e.signers[0], bankKeeper.GetBalance(sdkCtx, e.signers[0], "uregen"))

	return e
}

func coinJSON(denom, amount string) map[string]interface{} {
	return map[string]interface{}{"fee": map[string]interface{}{"denom": denom, "amount": amount}}
}

// baseGenesis: credit type C, allowlist disabled, class C01 (for basket allowed_classes).
func baseGenesis(classAdmin sdk.AccAddress) map[string]interface{} {
	return map[string]interface{}{
		"regen.ecocredit.v1.CreditType": []interface{}{
			map[string]interface{}{
				"abbreviation": "C",
				"name":         "carbon",
				"precision":    6,
				"unit":         "metric ton CO2 equivalent",
			},
		},
		"regen.ecocredit.v1.ClassCreatorAllowlist": map[string]interface{}{"enabled": false},
		"regen.ecocredit.v1.Class": []interface{}{
			1,
			map[string]interface{}{
				"key":                "1",
				"id":                 "C01",
				"admin":              []byte(classAdmin), // json -> base64, as the ORM JSON expects
				"credit_type_abbrev": "C",
				"metadata":           "metadata",
			},
		},
		"regen.ecocredit.v1.ClassSequence": []interface{}{
			map[string]interface{}{"credit_type_abbrev": "C", "next_sequence": "2"},
		},
	}
}

// signer 0 of the fixture (deterministic, see fixture.makeTestAddresses);
// newDemoEnv callers assert that it really equals fixture.Signers()[0].
func demoCreator(_ *testing.T) sdk.AccAddress {
	key := secp256k1.GenPrivKeyFromSecret([]byte{byte(0)})
	return sdk.AccAddress(key.PubKey().Address())
}

/* ------------------------------------------------------------------ (A) */

func TestDemoZeroClassFee(t *testing.T) {
	creator := demoCreator(t)

	mkMsg := func(fee *sdk.Coin) *basetypes.MsgCreateClass {
		return &basetypes.MsgCreateClass{
			Admin:            creator.String(),
			Issuers:          []string{creator.String()},
			Metadata:         "metadata",
			CreditTypeAbbrev: "C",
			Fee:              fee,
		}
	}
	coin := func(n int64) *sdk.Coin { c := sdk.NewInt64Coin("uregen", n); return &c }

	// ---- controls: identical flow, fee unset / fee 1uregen => must succeed
	t.Run("control_fee_unset_no_fee_offered", func(t *testing.T) {
		e := newDemoEnv(t, baseGenesis(creator)) // no ClassFee row at all
		res, err := e.base.CreateClass(e.fix.Context(), mkMsg(nil))
		t.Logf("CreateClass(no fee) with ClassFee unset -> res=%v err=%v", res, err)
		require.NoError(t, err)
	})
	t.Run("control_fee_1uregen_offer_10uregen", func(t *testing.T) {
		g := baseGenesis(creator)
		g["regen.ecocredit.v1.ClassFee"] = coinJSON("uregen", "1")
		e := newDemoEnv(t, g)
		res, err := e.base.CreateClass(e.fix.Context(), mkMsg(coin(10)))
		t.Logf("CreateClass(fee 10uregen) with ClassFee=1uregen -> res=%v err=%v", res, err)
		require.NoError(t, err)
	})

	// ---- the zero fee state
	g := baseGenesis(creator)
	g["regen.ecocredit.v1.ClassFee"] = coinJSON("uregen", "0")

	t.Run("zero_fee_state_is_accepted_by_ClassFee.Validate", func(t *testing.T) {
		cf := basetypes.ClassFee{Fee: coin(0)}
		err := cf.Validate()
		t.Logf("ClassFee{Fee: 0uregen}.Validate() -> %v", err)
		t.Logf("sdk.Coins{0uregen}.IsValid() -> %v ; sdk.Coins{0uregen}.Validate() -> %v",
			sdk.Coins{*coin(0)}.IsValid(), sdk.Coins{*coin(0)}.Validate())
		require.NoError(t, err)
	})

	t.Run("i_no_fee_offered", func(t *testing.T) {
		e := newDemoEnv(t, g)
		res, err := e.base.CreateClass(e.fix.Context(), mkMsg(nil))
		t.Logf("(A.i) CreateClass(no fee) with ClassFee=0uregen -> res=%v err=%v", res, err)
		if err != nil {
			t.Errorf("(A.i) creation REJECTED: %v", err)
		}
	})

	t.Run("ii_fee_0uregen_offered", func(t *testing.T) {
		e := newDemoEnv(t, g)
		msg := mkMsg(coin(0))
		t.Logf("(A.ii) MsgCreateClass{fee:0uregen}.ValidateBasic() -> %v", msg.ValidateBasic())
		res, err := e.base.CreateClass(e.fix.Context(), msg)
		t.Logf("(A.ii) CreateClass(fee 0uregen) with ClassFee=0uregen via msg router -> res=%v err=%v", res, err)
		if err != nil {
			t.Errorf("(A.ii) creation REJECTED: %v", err)
		}
	})

	t.Run("ii_b_fee_0uregen_offered_bypassing_ValidateBasic", func(t *testing.T) {
		// call the keeper's MsgServer method directly (no ValidateBasic) to show what
		// the handler + real bank keeper do with an offered fee of exactly 0uregen
		e := newDemoEnv(t, g)
		cctx, _ := e.sdkCtx.CacheContext()
		k := e.mod.Keeper.GetBaseKeeper()
		res, err := k.CreateClass(sdk.WrapSDKContext(cctx), mkMsg(coin(0)))
		t.Logf("(A.ii-b) keeper.CreateClass(fee 0uregen) with ClassFee=0uregen, no ValidateBasic -> res=%v err=%v", res, err)
		if err != nil {
			t.Errorf("(A.ii-b) creation REJECTED: %v", err)
		}
	})

	t.Run("iii_fee_10uregen_offered", func(t *testing.T) {
		e := newDemoEnv(t, g)
		msg := mkMsg(coin(10))
		t.Logf("(A.iii) MsgCreateClass{fee:10uregen}.ValidateBasic() -> %v", msg.ValidateBasic())
		res, err := e.base.CreateClass(e.fix.Context(), msg)
		t.Logf("(A.iii) CreateClass(fee 10uregen) with ClassFee=0uregen -> res=%v err=%v", res, err)
		if err != nil {
			t.Errorf("(A.iii) creation REJECTED: %v", err)
		}
		t.Logf("creator balance afterwards: %s", e.bank.GetBalance(e.sdkCtx, creator, "uregen"))
	})
}

/* ------------------------------------------------------------------ (B) */

func TestDemoZeroBasketFee(t *testing.T) {
	creator := demoCreator(t)

	mkMsg := func(fee sdk.Coins) *baskettypes.MsgCreate {
		return &baskettypes.MsgCreate{
			Curator:          creator.String(),
			Name:             "NCT",
			Description:      "demo",
			CreditTypeAbbrev: "C",
			AllowedClasses:   []string{"C01"},
			Fee:              fee,
		}
	}
	coins := func(n int64) sdk.Coins { return sdk.Coins{sdk.NewInt64Coin("uregen", n)} }

	// ---- controls
	t.Run("control_fee_unset_no_fee_offered", func(t *testing.T) {
		e := newDemoEnv(t, baseGenesis(creator)) // no BasketFee row
		res, err := e.basket.Create(e.fix.Context(), mkMsg(nil))
		t.Logf("basket Create(no fee) with BasketFee unset -> res=%v err=%v", res, err)
		require.NoError(t, err)
	})
	t.Run("control_fee_1uregen_offer_10uregen", func(t *testing.T) {
		g := baseGenesis(creator)
		g["regen.ecocredit.basket.v1.BasketFee"] = coinJSON("uregen", "1")
		e := newDemoEnv(t, g)
		res, err := e.basket.Create(e.fix.Context(), mkMsg(coins(10)))
		t.Logf("basket Create(fee 10uregen) with BasketFee=1uregen -> res=%v err=%v", res, err)
		require.NoError(t, err)
	})

	// ---- the zero fee state
	g := baseGenesis(creator)
	g["regen.ecocredit.basket.v1.BasketFee"] = coinJSON("uregen", "0")

	t.Run("zero_fee_state_is_accepted_by_BasketFee.Validate", func(t *testing.T) {
		zero := sdk.NewInt64Coin("uregen", 0)
		bf := baskettypes.BasketFee{Fee: &zero}
		err := bf.Validate()
		t.Logf("BasketFee{Fee: 0uregen}.Validate() -> %v", err)
		require.NoError(t, err)
	})

	t.Run("i_no_fee_offered", func(t *testing.T) {
		e := newDemoEnv(t, g)
		res, err := e.basket.Create(e.fix.Context(), mkMsg(nil))
		t.Logf("(B.i) basket Create(no fee) with BasketFee=0uregen -> res=%v err=%v", res, err)
		if err != nil {
			t.Errorf("(B.i) creation REJECTED: %v", err)
		}
	})

	t.Run("ii_fee_0uregen_offered", func(t *testing.T) {
		e := newDemoEnv(t, g)
		msg := mkMsg(coins(0))
		t.Logf("(B.ii) MsgCreate{fee:[0uregen]}.ValidateBasic() -> %v", msg.ValidateBasic())
		res, err := e.basket.Create(e.fix.Context(), msg)
		t.Logf("(B.ii) basket Create(fee 0uregen) with BasketFee=0uregen via msg router -> res=%v err=%v", res, err)
		if err != nil {
			t.Errorf("(B.ii) creation REJECTED: %v", err)
		}
	})

	t.Run("ii_b_fee_0uregen_offered_bypassing_ValidateBasic", func(t *testing.T) {
		e := newDemoEnv(t, g)
		cctx, _ := e.sdkCtx.CacheContext()
		k := e.mod.Keeper.GetBasketKeeper()
		res, err := k.Create(sdk.WrapSDKContext(cctx), mkMsg(coins(0)))
		t.Logf("(B.ii-b) keeper.Create(fee 0uregen) with BasketFee=0uregen, no ValidateBasic -> res=%v err=%v", res, err)
		if err != nil {
			t.Errorf("(B.ii-b) creation REJECTED: %v", err)
		}
	})

	t.Run("iii_fee_10uregen_offered", func(t *testing.T) {
		e := newDemoEnv(t, g)
		msg := mkMsg(coins(10))
		t.Logf("(B.iii) MsgCreate{fee:[10uregen]}.ValidateBasic() -> %v", msg.ValidateBasic())
		res, err := e.basket.Create(e.fix.Context(), msg)
		t.Logf("(B.iii) basket Create(fee 10uregen) with BasketFee=0uregen -> res=%v err=%v", res, err)
		if err != nil {
			t.Errorf("(B.iii) creation REJECTED: %v", err)
		}
		t.Logf("curator balance afterwards: %s", e.bank.GetBalance(e.sdkCtx, creator, "uregen"))
	})
}
