// Place in /repo/x/data/server (package server). Demonstrates known finding F3 (C09):
// a public resolver (MsgDefineResolver{Public: true}, accepted by ValidateBasic and by the
// handler) is stored with an empty manager, which Resolver.Validate - and therefore the data
// module's own ValidateGenesis on the exported state - rejects.
//
//	cd /repo/x/data && go test -vet=off -count=1 -run TestDemoF3 ./server   (after copying the file)
package server

import (
	"testing"

	"github.com/stretchr/testify/require"

	"github.com/regen-network/regen-ledger/x/data/v3"
	"github.com/regen-network/regen-ledger/x/data/v3/genesis"
)

func TestDemoF3PublicResolverBreaksGenesisValidation(t *testing.T) {
	s := setupBase(t)
	msg := &data.MsgDefineResolver{Definer: s.addrs[0].String(), ResolverUrl: "https://foo.bar", Public: true}
	require.NoError(t, msg.ValidateBasic())
	_, err := s.server.DefineResolver(s.ctx, msg)
	require.NoError(t, err)

	exported, err := s.server.ExportGenesis(s.sdkCtx, nil)
	require.NoError(t, err)
	// C09: the exported state of a reachable state must pass the module's own validation
	require.NoError(t, genesis.ValidateGenesis(exported), "exported genesis: %s", string(exported))
}

func TestDemoF3PrivateResolverIsFine(t *testing.T) {
	s := setupBase(t)
	msg := &data.MsgDefineResolver{Definer: s.addrs[0].String(), ResolverUrl: "https://foo.bar"}
	_, err := s.server.DefineResolver(s.ctx, msg)
	require.NoError(t, err)
	exported, err := s.server.ExportGenesis(s.sdkCtx, nil)
	require.NoError(t, err)
	require.NoError(t, genesis.ValidateGenesis(exported))
}
