//go:build verif

package math

import (
	"github.com/cockroachdb/apd/v2"

	zz "github.com/regen-network/regen-ledger/types/v2/zzverif"
)

// native replay: decimals come from the counterexample as (negative, coefficient, exponent)
func init() {
	zz.Filler = func(label string, ptr interface{}) bool {
		d, ok := ptr.(*apd.Decimal)
		if !ok {
			return false
		}
		d.Form = apd.Finite
		d.Negative = zz.CexBool(label + "[0]")
		d.Coeff.Set(zz.CexBig(label + "[1]"))
		d.Exponent = int32(zz.CexInt(label + "[2]"))
		return true
	}
}

func zzvNondetDec(label string) Dec {
	zz.NoMerge()
	var d Dec
	zz.NondetInto(label, &d.dec)
	return d
}

// nondetDecExp: an arbitrary decimal whose exponent lies in lo..hi, one path per exponent.
func zzvNondetDecExp(label string, lo, hi int) Dec {
	d := zzvNondetDec(label)
	zz.Assume(zz.And(int(d.dec.Exponent) >= lo, int(d.dec.Exponent) <= hi))
	d.dec.Exponent = int32(zz.Concretize(int(d.dec.Exponent), lo, hi))
	return d
}

// C19: Add and Sub never round, never fail within the bounds, and leave operands alone.
func VerifHarness_C19_AddSub() {
	x := zzvNondetDec("x")
	y := zzvNondetDec("y")
	xv, yv := zz.QOf(x), zz.QOf(y)
	z, err := x.Add(y)
	zz.Assert(err == nil, "add: no error")
	zz.Assert(zz.QEq(zz.QOf(z), zz.QAdd(xv, yv)), "add: exact")
	zz.Assert(zz.And(zz.QEq(zz.QOf(x), xv), zz.QEq(zz.QOf(y), yv)), "add: operands unchanged")
	w, err := x.Sub(y)
	zz.Assert(err == nil, "sub: no error")
	zz.Assert(zz.QEq(zz.QOf(w), zz.QSub(xv, yv)), "sub: exact")
	zz.Assert(zz.And(zz.QEq(zz.QOf(x), xv), zz.QEq(zz.QOf(y), yv)), "sub: operands unchanged")
	zz.Assert(zz.QEq(zz.QOf(z), zz.QAdd(xv, yv)), "sub: earlier result unchanged")
	zz.Reach("addsub")
}

// C19: balance subtraction never yields a negative value without an error.
func VerifHarness_C19_SafeBalance() {
	x := zzvNondetDec("x")
	y := zzvNondetDec("y")
	xv, yv := zz.QOf(x), zz.QOf(y)
	z, err := SafeSubBalance(x, y)
	if err == nil {
		zz.Assert(zz.QEq(zz.QOf(z), zz.QSub(xv, yv)), "safesub: exact")
		zz.Assert(zz.QLe(zz.QInt(0), zz.QOf(z)), "safesub: non-negative on success")
		zz.Reach("safesub ok")
	} else {
		zz.Assert(zz.QLt(zz.QSub(xv, yv), zz.QInt(0)), "safesub: error only if negative")
		zz.Reach("safesub err")
	}
	zz.Assert(zz.And(zz.QEq(zz.QOf(x), xv), zz.QEq(zz.QOf(y), yv)), "safesub: operands unchanged")
	s, err := SafeAddBalance(x, y)
	neg := zz.Or(zz.QLt(xv, zz.QInt(0)), zz.QLt(yv, zz.QInt(0)))
	if err == nil {
		zz.Assert(zz.Not(neg), "safeadd: success only for non-negative operands")
		zz.Assert(zz.QEq(zz.QOf(s), zz.QAdd(xv, yv)), "safeadd: exact")
	} else {
		zz.Assert(neg, "safeadd: error only for a negative operand")
	}
	n, err := SubNonNegative(x, y)
	if err == nil {
		zz.Assert(zz.QEq(zz.QOf(n), zz.QSub(xv, yv)), "subnonneg: exact")
		zz.Assert(zz.QLe(zz.QInt(0), zz.QOf(n)), "subnonneg: non-negative on success")
	} else {
		zz.Assert(zz.QLt(zz.QSub(xv, yv), zz.QInt(0)), "subnonneg: error only if negative")
	}
}

// C19: conversion to integer coins truncates toward zero.
func VerifHarness_C19_SdkIntTrim() {
	x := zzvNondetDec("x")
	// one path per exponent: the divisions by powers of ten become divisions by constants
	x.dec.Exponent = int32(zz.Concretize(int(x.dec.Exponent), zz.Bound("exp_lo", -12), zz.Bound("exp_hi", 12)))
	xv := zz.QOf(x)
	// SdkIntTrim documents a panic above the 256-bit range of sdk.Int
	zz.Assume(zz.QLt(zz.QAbs(xv), zz.QPow10(76)))
	i := x.SdkIntTrim()
	// truncation toward zero, stated without a floor function (linear for the solver): the
	// integer result lies between zero and x and less than one away from x
	iv := zz.QOf(i)
	one := zz.QInt(1)
	pos := zz.And(zz.QLe(zz.QInt(0), xv), zz.And(zz.QLe(iv, xv), zz.QLt(xv, zz.QAdd(iv, one))))
	neg := zz.And(zz.QLt(xv, zz.QInt(0)), zz.And(zz.QLe(xv, iv), zz.QLt(zz.QSub(iv, one), xv)))
	zz.Assert(zz.Or(pos, neg), "sdkinttrim: truncation toward zero")
	zz.Assert(zz.QEq(zz.QOf(x), xv), "sdkinttrim: operand unchanged")
	zz.Reach("trim")
}

// digits34 is 10^34: decimal128 keeps 34 significant digits.
func zzvPow10(n int) zz.Q { return zz.QPow10(n) }

// within34 states that z is x rounded to 34 significant digits: exact when x fits, and
// otherwise no further than one unit of the 34th digit away (any rounding mode).
func zzvWithin34(z, exact zz.Q) bool {
	// |z - exact| * 10^33 <= |exact|  <=>  relative error at most 10^-33
	diff := zz.QAbs(zz.QSub(z, exact))
	return zz.QLe(zz.QMul(diff, zzvPow10(33)), zz.QAbs(exact))
}

// C19: the exact multiply returns the exact product or an error; the rounding multiply is
// correct to 34 significant digits; neither modifies its operands.
func VerifHarness_C19_Mul() {
	x := zzvNondetDecExp("x", zz.Bound("xexp_lo", -6), zz.Bound("xexp_hi", 2))
	y := zzvNondetDecExp("y", zz.Bound("yexp_lo", -2), zz.Bound("yexp_hi", 1))
	xv, yv := zz.QOf(x), zz.QOf(y)
	p := zz.QMul(xv, yv)
	z, err := x.MulExact(y)
	if err == nil {
		zz.Assert(zz.QEq(zz.QOf(z), p), "mulexact: exact on success")
		zz.Reach("mulexact ok")
	} else {
		zz.Reach("mulexact err")
	}
	w, err := x.Mul(y)
	zz.Assert(err == nil, "mul: no error within the exponent range")
	if err == nil {
		zz.Assert(zzvWithin34(zz.QOf(w), p), "mul: correct to 34 significant digits")
	}
	zz.Assert(zz.And(zz.QEq(zz.QOf(x), xv), zz.QEq(zz.QOf(y), yv)), "mul: operands unchanged")
}

// C19: the exact divide returns the exact quotient or an error; the rounding divide is
// correct to 34 significant digits; division by zero is an error.
func VerifHarness_C19_Quo() {
	x := zzvNondetDecExp("x", zz.Bound("xexp_lo", -6), zz.Bound("xexp_hi", 2))
	y := zzvNondetDecExp("y", zz.Bound("yexp_lo", -2), zz.Bound("yexp_hi", 1))
	xv, yv := zz.QOf(x), zz.QOf(y)
	z, err := x.QuoExact(y)
	if err == nil {
		zz.Assert(zz.Not(zz.QEq(yv, zz.QInt(0))), "quoexact: succeeds only for a non-zero divisor")
		zz.Assert(zz.QEq(zz.QOf(z), zz.QDiv(xv, yv)), "quoexact: exact on success")
		zz.Reach("quoexact ok")
	} else {
		zz.Reach("quoexact err")
	}
	w, err := x.Quo(y)
	if err == nil {
		zz.Assert(zz.Not(zz.QEq(yv, zz.QInt(0))), "quo: succeeds only for a non-zero divisor")
		zz.Assert(zzvWithin34(zz.QOf(w), zz.QDiv(xv, yv)), "quo: correct to 34 significant digits")
	} else {
		zz.Assert(zz.QEq(yv, zz.QInt(0)), "quo: fails only for a zero divisor")
	}
	zz.Assert(zz.And(zz.QEq(zz.QOf(x), xv), zz.QEq(zz.QOf(y), yv)), "quo: operands unchanged")
}

// C19: rendering is always plain notation and re-parsing the rendering gives the same
// number.
func VerifHarness_C19_StringRoundTrip() {
	x := zzvNondetDec("x")
	xv := zz.QOf(x)
	s := x.String()
	zz.Assert(zz.DecPlain(s), "string: plain (non-scientific) notation")
	y, err := NewDecFromString(s)
	zz.Assert(err == nil, "string: the rendering parses")
	if err == nil {
		zz.Assert(zz.QEq(zz.QOf(y), xv), "string: re-parsing gives the same number")
	}
	zz.Assert(zz.QEq(zz.QOf(x), xv), "string: operand unchanged")
	zz.Reach("string")
}

// C19: parsing yields exactly the value of the string, and the sign / scale gates reject
// exactly what they document.
func VerifHarness_C19_Parse() {
	s := zz.NondetAtom("s")
	v := zz.QParse(s)
	d, err := NewDecFromString(s)
	if err == nil {
		zz.Assert(zz.QEq(zz.QOf(d), v), "parse: exactly the value of the string")
		zz.Reach("parse ok")
	}
	parsed := err == nil
	if parsed {
		// one path per exponent of the parsed string: the scale checks become linear
		zz.Concretize(int(d.dec.Exponent), zz.Bound("exp_lo", -12), zz.Bound("exp_hi", 12))
	}
	n, err := NewNonNegativeDecFromString(s)
	zz.Assert((err == nil) == zz.And(parsed, zz.QLe(zz.QInt(0), v)), "parse: non-negative gate accepts exactly the non-negative decimals")
	if err == nil {
		zz.Assert(zz.QEq(zz.QOf(n), v), "parse: non-negative gate keeps the value")
	}
	p, err := NewPositiveDecFromString(s)
	zz.Assert((err == nil) == zz.And(parsed, zz.QLt(zz.QInt(0), v)), "parse: positive gate accepts exactly the positive decimals")
	if err == nil {
		zz.Assert(zz.QEq(zz.QOf(p), v), "parse: positive gate keeps the value")
	}
	places := uint32(zz.Concretize(zz.NondetRange("places", 0, 12), 0, 12))
	f, err := NewNonNegativeFixedDecFromString(s, places)
	if err == nil {
		zz.Assert(zz.And(parsed, zz.QLe(zz.QInt(0), v)), "parse: fixed gate accepts only non-negative decimals")
		zz.Assert(zz.QIsInt(zz.QMul(v, zz.QPow10(int(places)))), "parse: fixed gate accepts only values with at most the given number of decimal places")
		zz.Assert(zz.QEq(zz.QOf(f), v), "parse: fixed gate keeps the value")
		zz.Reach("fixed ok")
	}
	g, err := NewPositiveFixedDecFromString(s, places)
	if err == nil {
		zz.Assert(zz.And(parsed, zz.QLt(zz.QInt(0), v)), "parse: positive fixed gate accepts only positive decimals")
		zz.Assert(zz.QIsInt(zz.QMul(v, zz.QPow10(int(places)))), "parse: positive fixed gate accepts only values with at most the given number of decimal places")
		zz.Assert(zz.QEq(zz.QOf(g), v), "parse: positive fixed gate keeps the value")
	}
}
