//go:build verif

package math

import (
	"github.com/cockroachdb/apd/v2"

	zz "github.com/regen-network/regen-ledger/types/v2/zzverif"
)

// native replay: decimals come from the counterexample as (negative, coefficient, exponent)
func init() {
	zz.Filler = func(label string, ptr interface{}) bool {
		d, ok := ptr.(*apd.Decimal)
		if !ok {
			return false
		}
		d.Form = apd.Finite
		d.Negative = zz.CexBool(label + "[0]")
		d.Coeff.Set(zz.CexBig(label + "[1]"))
		d.Exponent = int32(zz.CexInt(label + "[2]"))
		return true
	}
}

func nondetDec(label string) Dec {
	zz.NoMerge()
	var d Dec
	zz.NondetInto(label, &d.dec)
	return d
}

// C19: Add and Sub never round, never fail within the bounds, and leave operands alone.
func VerifHarness_C19_AddSub() {
	x := nondetDec("x")
	y := nondetDec("y")
	xv, yv := zz.QOf(x), zz.QOf(y)
	z, err := x.Add(y)
	zz.Assert(err == nil, "add: no error")
	zz.Assert(zz.QEq(zz.QOf(z), zz.QAdd(xv, yv)), "add: exact")
	zz.Assert(zz.And(zz.QEq(zz.QOf(x), xv), zz.QEq(zz.QOf(y), yv)), "add: operands unchanged")
	w, err := x.Sub(y)
	zz.Assert(err == nil, "sub: no error")
	zz.Assert(zz.QEq(zz.QOf(w), zz.QSub(xv, yv)), "sub: exact")
	zz.Assert(zz.And(zz.QEq(zz.QOf(x), xv), zz.QEq(zz.QOf(y), yv)), "sub: operands unchanged")
	zz.Assert(zz.QEq(zz.QOf(z), zz.QAdd(xv, yv)), "sub: earlier result unchanged")
	zz.Reach("addsub")
}

// C19: balance subtraction never yields a negative value without an error.
func VerifHarness_C19_SafeBalance() {
	x := nondetDec("x")
	y := nondetDec("y")
	xv, yv := zz.QOf(x), zz.QOf(y)
	z, err := SafeSubBalance(x, y)
	if err == nil {
		zz.Assert(zz.QEq(zz.QOf(z), zz.QSub(xv, yv)), "safesub: exact")
		zz.Assert(zz.QLe(zz.QInt(0), zz.QOf(z)), "safesub: non-negative on success")
		zz.Reach("safesub ok")
	} else {
		zz.Assert(zz.QLt(zz.QSub(xv, yv), zz.QInt(0)), "safesub: error only if negative")
		zz.Reach("safesub err")
	}
	zz.Assert(zz.And(zz.QEq(zz.QOf(x), xv), zz.QEq(zz.QOf(y), yv)), "safesub: operands unchanged")
	s, err := SafeAddBalance(x, y)
	neg := zz.Or(zz.QLt(xv, zz.QInt(0)), zz.QLt(yv, zz.QInt(0)))
	if err == nil {
		zz.Assert(zz.Not(neg), "safeadd: success only for non-negative operands")
		zz.Assert(zz.QEq(zz.QOf(s), zz.QAdd(xv, yv)), "safeadd: exact")
	} else {
		zz.Assert(neg, "safeadd: error only for a negative operand")
	}
	n, err := SubNonNegative(x, y)
	if err == nil {
		zz.Assert(zz.QEq(zz.QOf(n), zz.QSub(xv, yv)), "subnonneg: exact")
		zz.Assert(zz.QLe(zz.QInt(0), zz.QOf(n)), "subnonneg: non-negative on success")
	} else {
		zz.Assert(zz.QLt(zz.QSub(xv, yv), zz.QInt(0)), "subnonneg: error only if negative")
	}
}

// C19: conversion to integer coins truncates toward zero.
func VerifHarness_C19_SdkIntTrim() {
	x := nondetDec("x")
	xv := zz.QOf(x)
	// SdkIntTrim documents a panic above the 256-bit range of sdk.Int
	zz.Assume(zz.QLt(zz.QAbs(xv), zz.QPow10(76)))
	i := x.SdkIntTrim()
	zz.Assert(zz.QEq(zz.QOf(i), zz.QTrunc(xv)), "sdkinttrim: truncation toward zero")
	zz.Assert(zz.QEq(zz.QOf(x), xv), "sdkinttrim: operand unchanged")
	zz.Reach("trim")
}
