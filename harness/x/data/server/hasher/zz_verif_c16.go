//go:build verif

package hasher

import (
	"hash"

	zz "github.com/regen-network/regen-ledger/x/data/v3/zzverif"
)

// symHash is a hash.Hash whose digest is an arbitrary 8-byte string that does not depend
// on the input: the weakest possible hash function (every value collides).
type zzvSymHash struct{ sum []byte }

func (h *zzvSymHash) Write(p []byte) (int, error) { return len(p), nil }
func (h *zzvSymHash) Sum(b []byte) []byte         { return append(b, h.sum...) }
func (h *zzvSymHash) Reset()                      {}
func (h *zzvSymHash) Size() int                   { return len(h.sum) }
func (h *zzvSymHash) BlockSize() int              { return 1 }

// CreateID for an arbitrary digest, every minimum length and every collision count within
// the bound: never panics, has the documented length, and two different collision counts
// in the fallback region never give the same id (so a probe sequence cannot cycle once
// the hash bytes are exhausted).
func VerifHarness_C16_CreateID() {
	sum := zz.NondetBytes("digest", 8)
	minLen := zz.NondetRange("minLen", 1, 8)
	h, err := NewHasherWithOptions(HashOptions{NewHash: func() hash.Hash { return &zzvSymHash{sum: sum} }, MinLength: minLen})
	zz.Assert(err == nil, "C16 a minimum length within the digest is accepted")
	max := zz.Bound("collisions", 300)
	c1 := zz.NondetRange("c1", 0, max)
	c2 := zz.NondetRange("c2", 0, max)
	id1 := h.CreateID([]byte("x"), c1)
	id2 := h.CreateID([]byte("x"), c2)
	zz.Assert(len(id1) > 0, "C16 an id is never empty")
	if minLen+c1 < 8 {
		zz.Assert(len(id1) == minLen+1, "C16 within the digest the id is the prefix plus one digest byte")
	} else {
		zz.Assert(len(id1) > 8, "C16 beyond the digest the id is the digest plus a varint")
		if minLen+c2 >= 8 && c1 != c2 {
			zz.Assert(!zz.BytesEq(id1, id2), "C16 different collision counts beyond the digest give different ids")
		}
	}
	zz.Reach("CreateID returns")
}
