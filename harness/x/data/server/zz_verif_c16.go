//go:build verif

package server

import (
	"context"
	"time"

	"google.golang.org/protobuf/types/known/timestamppb"

	sdk "github.com/cosmos/cosmos-sdk/types"

	api "github.com/regen-network/regen-ledger/api/v2/regen/data/v1"
	"github.com/regen-network/regen-ledger/x/data/v3"
	_ "github.com/regen-network/regen-ledger/x/data/v3/genesis" // loaded for genesis.validateMsg (C09)
	zz "github.com/regen-network/regen-ledger/x/data/v3/zzverif"
)

// C16: one-step inductive argument over the four data messages. The pre-state is an
// arbitrary content of the five tables satisfying the referential invariant R16; the ID
// hash function is an uninterpreted function of (iri, collisions) - every hash function,
// including constant ones; the step obligations are permanence of every pre-existing row
// (for skolem keys), first-anchoring timestamps, attest-once, the manager check and the
// invariant on the written rows.

const (
	tDataID       = "regen.data.v1.DataID"
	tDataAnchor   = "regen.data.v1.DataAnchor"
	tDataAttestor = "regen.data.v1.DataAttestor"
	tResolver     = "regen.data.v1.Resolver"
	tDataResolver = "regen.data.v1.DataResolver"
)

var zzvW16 int

func zzvExists16(table string, keys ...interface{}) bool {
	if zzvW16 == 0 {
		return zz.OrmExists0(table, keys...)
	}
	return zz.OrmExists1(table, keys...)
}

func zzvDataIDOK(r *api.DataID) bool { return r.Iri != "" }
func zzvDataAnchorOK(r *api.DataAnchor) bool {
	return zz.And(zzvExists16(tDataID, r.Id), r.Timestamp != nil)
}
func zzvDataAttestorOK(r *api.DataAttestor) bool {
	return zz.And(zz.And(zzvExists16(tDataAnchor, r.Id), r.Timestamp != nil), len(r.Attestor) > 0)
}
func zzvDataResolverOK(r *api.DataResolver) bool {
	return zz.And(zzvExists16(tDataAnchor, r.Id), zzvExists16(tResolver, r.ResolverId))
}

const zzvDataPkg = "github.com/regen-network/regen-ledger/x/data/v3"
const zzvGenesisPkg = zzvDataPkg + "/genesis"

func zzvInstall16() {
	// IRI construction and content-hash validation are decided at byte level by the C15
	// kernels; here they are functions of the content hash, nothing more
	for _, f := range []string{"(" + zzvDataPkg + ".ContentHash_Raw).ToIRI", "(" + zzvDataPkg + ".ContentHash_Graph).ToIRI",
		"(*" + zzvDataPkg + ".ContentHash_Raw).Validate", "(*" + zzvDataPkg + ".ContentHash_Graph).Validate", zzvDataPkg + ".ParseIRI"} {
		zz.Summarize(f)
	}
	zz.OrmInvariant(tDataID, zzvDataIDOK)
	zz.OrmInvariant(tDataAnchor, zzvDataAnchorOK)
	zz.OrmInvariant(tDataAttestor, zzvDataAttestorOK)
	zz.OrmInvariant(tDataResolver, zzvDataResolverOK)
}

type zzvStep16 struct {
	err      error
	panicked bool
	now      time.Time
}

var zzvErrPanicked16 = data.ErrInvalidIRI.Wrap("handler panicked")

func zzvCall16(call func(ctx context.Context) error) (err error, panicked bool) {
	defer func() {
		if r := recover(); r != nil {
			err = zzvErrPanicked16
			panicked = true
		}
	}()
	return call(zz.Context()), false
}

// symServer: the real constructor over the model tables; the module database, the generated
// state store and the ID hasher are replaced by the engine (tables with arbitrary content,
// an uninterpreted hash function), everything else NewServer sets up is kept as it is.
func zzvSymServer() serverImpl {
	return NewServer(nil, nil, nil)
}

func zzvSameTS(a, b *timestamppb.Timestamp) bool {
	return zz.And(a.GetSeconds() == b.GetSeconds(), a.GetNanos() == b.GetNanos())
}

func zzvTsIs(a *timestamppb.Timestamp, t time.Time) bool {
	return zz.And(a.GetSeconds() == t.Unix(), int(a.GetNanos()) == t.Nanosecond())
}

// runStep16 executes one message from an arbitrary pre-state and discharges the
// obligations common to all four messages.
func zzvRunStep16(req sdk.Msg, lemmas func(), call func(s serverImpl, ctx context.Context) error, hook func(st *zzvStep16)) {
	zzvInstall16()
	s := zzvSymServer()
	zz.NondetInto("req", req)
	zz.Assume(req.ValidateBasic() == nil)
	if lemmas != nil {
		lemmas()
	}
	// skolem keys: an arbitrary data id, attestor and resolver id
	sid := zz.NondetBytesAtom("sk.id")
	satt := zz.NondetBytesAtom("sk.attestor")
	srid := zz.NondetU64("sk.resolver")
	// executions with at most iter probes per content hash (collision chains up to iter-1)
	zz.AssumeLoopBound("getOrCreateDataID", zz.Bound("iter", 2))
	st := &zzvStep16{now: sdk.UnwrapSDKContext(zz.Context()).BlockTime()}
	zz.OrmBegin()
	st.err, st.panicked = zzvCall16(func(ctx context.Context) error { return call(s, ctx) })
	zz.OrmRollbackIf(st.err != nil)
	zz.Assert(!st.panicked, "C16 the handler does not panic")

	// permanence of ids
	var id0, id1 api.DataID
	had := zz.OrmRow0(tDataID, &id0, sid)
	has := zz.OrmRow1(tDataID, &id1, sid)
	zz.Assert(zz.Implies(had, has), "C16 a data id is never removed")
	zz.Assert(zz.Implies(had, id1.Iri == id0.Iri), "C16 a data id keeps its IRI")
	// same IRI, same id: the unique IRI index still leads to the id it led to
	var byIri0, byIri1 api.DataID
	siri := zz.NondetAtom("sk.iri")
	had = zz.OrmLookup0(tDataID, "Iri", &byIri0, siri)
	has = zz.OrmLookup1(tDataID, "Iri", &byIri1, siri)
	zz.Assert(zz.Implies(had, has), "C16 an anchored IRI keeps an id")
	zz.Assert(zz.Implies(had, zz.BytesEq(byIri1.Id, byIri0.Id)), "C16 an anchored IRI keeps the same id")
	// permanence of anchors and their first-seen time
	var a0, a1 api.DataAnchor
	had = zz.OrmRow0(tDataAnchor, &a0, sid)
	has = zz.OrmRow1(tDataAnchor, &a1, sid)
	zz.Assert(zz.Implies(had, has), "C16 an anchor is never removed")
	zz.Assert(zz.Implies(had, zzvSameTS(a1.Timestamp, a0.Timestamp)), "C16 an anchor timestamp never changes")
	zz.Assert(zz.Implies(zz.And(!had, has), zzvTsIs(a1.Timestamp, st.now)), "C16 a new anchor carries the block time")
	// attestations
	var t0, t1 api.DataAttestor
	had = zz.OrmRow0(tDataAttestor, &t0, sid, satt)
	has = zz.OrmRow1(tDataAttestor, &t1, sid, satt)
	zz.Assert(zz.Implies(had, has), "C16 an attestation is never removed")
	zz.Assert(zz.Implies(had, zzvSameTS(t1.Timestamp, t0.Timestamp)), "C16 an attestation timestamp never changes")
	zz.Assert(zz.Implies(zz.And(!had, has), zzvTsIs(t1.Timestamp, st.now)), "C16 a new attestation carries the block time")
	// resolvers and registrations
	var r0, r1 api.Resolver
	had = zz.OrmRow0(tResolver, &r0, srid)
	has = zz.OrmRow1(tResolver, &r1, srid)
	zz.Assert(zz.Implies(had, has), "C16 a resolver is never removed")
	zz.Assert(zz.Implies(had, zz.And(r1.Url == r0.Url, zz.BytesEq(r1.Manager, r0.Manager))), "C16 a resolver keeps its url and manager")
	zz.Assert(zz.Implies(had, zz.And(r1.Url == r0.Url, zz.BytesEq(r1.Manager, r0.Manager))), "C08 no data message changes an existing resolver's url or manager (there is no message for it)")
	zz.Assert(zz.Implies(zz.OrmExists0(tDataResolver, sid, srid), zz.OrmExists1(tDataResolver, sid, srid)), "C16 a resolver registration is never lost")
	if hook != nil {
		hook(st)
	}
	// R16 on everything written
	zzvW16 = 1
	zz.Assert(zz.AllWritten(tDataID, zzvDataIDOK), "C16 written DataID rows are well formed")
	zz.Assert(zz.AllWritten(tDataAnchor, zzvDataAnchorOK), "C16 every anchor has its data id")
	zz.Assert(zz.AllWritten(tDataAttestor, zzvDataAttestorOK), "C16 every attestation has its anchor")
	zz.Assert(zz.AllWritten(tDataResolver, zzvDataResolverOK), "C16 every registration has its anchor and resolver")
	zzvW16 = 0
	// C09 (data module): every row a handler writes is accepted by the validator the module's
	// own ValidateGenesis applies to each row of an exported state (genesis.validateMsg, the
	// JSONValidator of the module database; the real function is executed, its protobuf JSON
	// round trip PulsarToGogoSlow is a field-wise copy in the engine).
	genesisOK := func(m interface{}) bool { return zz.CallUnexported(zzvGenesisPkg, "validateMsg", m) == nil }
	zz.Assert(zz.AllWritten(tDataID, func(r *api.DataID) bool { return genesisOK(r) }), "C09 written DataID rows pass genesis validation")
	zz.Assert(zz.AllWritten(tDataAnchor, func(r *api.DataAnchor) bool { return genesisOK(r) }), "C09 written DataAnchor rows pass genesis validation")
	zz.Assert(zz.AllWritten(tDataAttestor, func(r *api.DataAttestor) bool { return genesisOK(r) }), "C09 written DataAttestor rows pass genesis validation")
	zz.Assert(zz.AllWritten(tDataResolver, func(r *api.DataResolver) bool { return genesisOK(r) }), "C09 written DataResolver rows pass genesis validation")
	zz.Assert(zz.AllWritten(tResolver, func(r *api.Resolver) bool { return genesisOK(r) }), "C09 written Resolver rows pass genesis validation")
	if st.err == nil {
		zz.Reach("handler succeeds")
	} else {
		zz.Reach("handler fails")
	}
}

// iriLemma: an IRI is never the empty string, and the IRI of a valid content hash is accepted
// by ParseIRI (both are what the C15 kernels decide at byte level: "C15 ParseIRI accepts the
// IRI of a valid raw/graph hash"; ParseIRI rejects the empty string). Here ToIRI, Validate
// and ParseIRI are uninterpreted functions related by exactly these two facts.
func zzvIriLemma(ch interface {
	ToIRI() (string, error)
	Validate() error
}) {
	iri, err := ch.ToIRI()
	zz.Assume(zz.Or(err != nil, iri != ""))
	if err == nil && ch.Validate() == nil {
		_, perr := data.ParseIRI(iri)
		zz.Assume(perr == nil)
	}
}

// anchored16: after a successful message the content hash's IRI has an id, that id is
// anchored, and the id row carries exactly this IRI.
func zzvAnchored16(iri string, what string) (id []byte) {
	var row api.DataID
	ok := zz.OrmLookup1(tDataID, "Iri", &row, iri)
	zz.Assert(ok, "C16 "+what+": the IRI has an id")
	zz.Assert(zz.OrmExists1(tDataAnchor, row.Id), "C16 "+what+": the id of the IRI is anchored")
	return row.Id
}

func VerifHarness_C16_Anchor() {
	req := &data.MsgAnchor{}
	var resp *data.MsgAnchorResponse
	zzvRunStep16(req, func() { zzvIriLemma(req.ContentHash) }, func(s serverImpl, ctx context.Context) error {
		var err error
		resp, err = s.Anchor(ctx, req)
		return err
	}, func(st *zzvStep16) {
		if st.err != nil {
			return
		}
		iri, err := req.ContentHash.ToIRI()
		zz.Assert(err == nil, "C16 Anchor succeeds only for a content hash with an IRI")
		zz.Assert(resp.Iri == iri, "C16 Anchor responds with the IRI of the content hash")
		id := zzvAnchored16(iri, "Anchor")
		var a api.DataAnchor
		zz.OrmRow1(tDataAnchor, &a, id)
		zz.Assert(zz.And(resp.Timestamp != nil, zz.And(a.Timestamp.GetSeconds() == resp.Timestamp.GetSeconds(), a.Timestamp.GetNanos() == resp.Timestamp.GetNanos())), "C16 Anchor responds with the stored anchor timestamp")
	})
}

func VerifHarness_C16_Attest() {
	req := &data.MsgAttest{}
	zzvRunStep16(req, func() {
		for _, ch := range req.ContentHashes {
			zzvIriLemma(ch)
		}
	}, func(s serverImpl, ctx context.Context) error {
		_, err := s.Attest(ctx, req)
		return err
	}, func(st *zzvStep16) {
		if st.err != nil {
			return
		}
		addr, _ := sdk.AccAddressFromBech32(req.Attestor)
		for _, ch := range req.ContentHashes {
			iri, err := ch.ToIRI()
			zz.Assert(err == nil, "C16 Attest succeeds only for content hashes with an IRI")
			id := zzvAnchored16(iri, "Attest")
			zz.Assert(zz.OrmExists1(tDataAttestor, id, []byte(addr)), "C16 Attest records the attestation")
		}
		// nobody else's attestation appears
		zz.Assert(zz.AllWritten(tDataAttestor, func(r *api.DataAttestor) bool { return zz.BytesEq(r.Attestor, addr) }), "C16 Attest records attestations of the signer only")
		zz.Assert(zz.AllWritten(tDataAttestor, func(r *api.DataAttestor) bool { return zz.BytesEq(r.Attestor, addr) }), "C08 Attest records attestations in the name of the signer only")
		zz.Assert(zz.OrmWrites(tResolver)+zz.OrmWrites(tDataResolver) == 0, "C08 Attest writes no resolver and no registration")
	})
}

func VerifHarness_C16_DefineResolver() {
	req := &data.MsgDefineResolver{}
	var resp *data.MsgDefineResolverResponse
	zzvRunStep16(req, nil, func(s serverImpl, ctx context.Context) error {
		var err error
		resp, err = s.DefineResolver(ctx, req)
		return err
	}, func(st *zzvStep16) {
		if st.err != nil {
			return
		}
		zz.Assert(!zz.OrmExists0(tResolver, resp.ResolverId), "C16 DefineResolver allocates a fresh resolver id")
		var r api.Resolver
		zz.Assert(zz.OrmRow1(tResolver, &r, resp.ResolverId), "C16 DefineResolver stores the resolver")
		addr, _ := sdk.AccAddressFromBech32(req.Definer)
		zz.Assert(r.Url == req.ResolverUrl, "C16 DefineResolver stores the url")
		zz.Assert(zz.OrmWrites(tResolver) == 1, "C08 DefineResolver writes exactly the resolver it defines")
		zz.Assert(zz.OrmWrites(tDataID)+zz.OrmWrites(tDataAnchor)+zz.OrmWrites(tDataAttestor)+zz.OrmWrites(tDataResolver) == 0, "C08 DefineResolver writes nothing but the resolver")
		if req.Public {
			zz.Assert(len(r.Manager) == 0, "C16 a public resolver has no manager")
		} else {
			zz.Assert(zz.BytesEq(r.Manager, addr), "C16 a non-public resolver is managed by its definer")
		}
	})
}

func VerifHarness_C16_RegisterResolver() {
	req := &data.MsgRegisterResolver{}
	zzvRunStep16(req, func() {
		for _, ch := range req.ContentHashes {
			zzvIriLemma(ch)
		}
	}, func(s serverImpl, ctx context.Context) error {
		_, err := s.RegisterResolver(ctx, req)
		return err
	}, func(st *zzvStep16) {
		if st.err != nil {
			zz.Assert(zz.OrmWrites(tDataResolver) == 0, "C16 a failed RegisterResolver registers nothing")
			return
		}
		var r api.Resolver
		zz.Assert(zz.OrmRow0(tResolver, &r, req.ResolverId), "C16 RegisterResolver succeeds only for a defined resolver")
		addr, _ := sdk.AccAddressFromBech32(req.Signer)
		zz.Assert(zz.Or(len(r.Manager) == 0, zz.BytesEq(r.Manager, addr)), "C16 only the manager registers data to a non-public resolver")
		zz.Assert(zz.Or(len(r.Manager) == 0, zz.BytesEq(r.Manager, addr)), "C08 RegisterResolver succeeds only for the resolver's manager unless the resolver is public")
		zz.Assert(zz.OrmWrites(tResolver) == 0, "C08 RegisterResolver writes no resolver")
		for _, ch := range req.ContentHashes {
			iri, err := ch.ToIRI()
			zz.Assert(err == nil, "C16 RegisterResolver succeeds only for content hashes with an IRI")
			id := zzvAnchored16(iri, "RegisterResolver")
			zz.Assert(zz.OrmExists1(tDataResolver, id, req.ResolverId), "C16 RegisterResolver records the registration")
		}
		zz.Assert(zz.AllWritten(tDataResolver, func(x *api.DataResolver) bool { return x.ResolverId == req.ResolverId }), "C16 RegisterResolver registers to the named resolver only")
	})
}

// ---- C10 (data module): determinism of the four handlers by self-composition

func zzvRunDet16(req sdk.Msg, lemmas func(), call func(s serverImpl, ctx context.Context) (interface{}, error)) {
	zzvInstall16()
	s := zzvSymServer()
	zz.NondetInto("req", req)
	zz.Assume(req.ValidateBasic() == nil)
	if lemmas != nil {
		lemmas()
	}
	zz.ProcessState(&s)
	zz.AssumeLoopBound("getOrCreateDataID", zz.Bound("iter", 2))
	run := func() (resp interface{}, err error, panicked bool) {
		defer func() {
			if r := recover(); r != nil {
				err = zzvErrPanicked16
				panicked = true
			}
		}()
		resp, err = call(s, zz.Context())
		return resp, err, false
	}
	zz.OrmBegin()
	r1, e1, p1 := run()
	zz.EffectsSnapshot()
	zz.OrmRollbackIf(true)
	r2, e2, p2 := run()
	zz.Assert(zz.And((e1 == nil) == (e2 == nil), p1 == p2), "C10 two executions of the same message from the same state have the same outcome")
	zz.Assert(zz.SameEffects(), "C10 two executions of the same message from the same state leave the same table contents and events")
	if e1 == nil && e2 == nil {
		zz.Assert(zz.DeepEqual(r1, r2), "C10 two executions of the same message from the same state give the same response")
	}
	zz.Assert(zz.HiddenWrites() == 0, "C10 the handler writes no per-process state (package-level variables, server memory)")
	zz.Assert(zz.WallClockReads() == 0, "C10 the handler reads no wall clock and starts no goroutine")
	zz.Reach("two executions")
}

func VerifHarness_C10_Anchor() {
	req := &data.MsgAnchor{}
	zzvRunDet16(req, func() { zzvIriLemma(req.ContentHash) }, func(s serverImpl, ctx context.Context) (interface{}, error) { return s.Anchor(ctx, req) })
}

func VerifHarness_C10_Attest() {
	req := &data.MsgAttest{}
	zzvRunDet16(req, func() {
		for _, ch := range req.ContentHashes {
			zzvIriLemma(ch)
		}
	}, func(s serverImpl, ctx context.Context) (interface{}, error) { return s.Attest(ctx, req) })
}

func VerifHarness_C10_DefineResolver() {
	req := &data.MsgDefineResolver{}
	zzvRunDet16(req, nil, func(s serverImpl, ctx context.Context) (interface{}, error) { return s.DefineResolver(ctx, req) })
}

func VerifHarness_C10_RegisterResolver() {
	req := &data.MsgRegisterResolver{}
	zzvRunDet16(req, func() {
		for _, ch := range req.ContentHashes {
			zzvIriLemma(ch)
		}
	}, func(s serverImpl, ctx context.Context) (interface{}, error) { return s.RegisterResolver(ctx, req) })
}
