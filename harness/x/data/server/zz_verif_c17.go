//go:build verif

package server

import (
	sdk "github.com/cosmos/cosmos-sdk/types"

	api "github.com/regen-network/regen-ledger/api/v2/regen/data/v1"
	"github.com/regen-network/regen-ledger/x/data/v3"
	zz "github.com/regen-network/regen-ledger/x/data/v3/zzverif"
)

// C17 (data): the list queries return exactly the stored rows of the IRI / URL, from an
// arbitrary table content satisfying R16; default pagination, at most `iter` rows.

func zzvInstall17() {
	zzvInstall16()
	// IRI syntax is decided at byte level by the C15 kernels; here it is a predicate
	zz.Summarize(zzvDataPkg + ".ParseIRI")
}

func VerifHarness_C17_AttestationsByIRI() {
	zzvInstall17()
	s := zzvSymServer()
	req := &data.QueryAttestationsByIRIRequest{}
	zz.NondetInto("req", req)
	req.Pagination = nil
	res, err := s.AttestationsByIRI(zz.Context(), req)
	var id api.DataID
	found := zz.OrmLookup0(tDataID, "Iri", &id, req.Iri)
	if err != nil {
		zz.Reach("query fails")
		return
	}
	zz.Assert(found, "C17 AttestationsByIRI succeeds only for an anchored IRI")
	for i, a := range res.Attestations {
		addr, aerr := sdk.AccAddressFromBech32(a.Attestor)
		var row api.DataAttestor
		has := zz.OrmRow0(tDataAttestor, &row, id.Id, []byte(addr))
		zz.Assert(zz.And(aerr == nil, has), "C17 AttestationsByIRI returns only stored attestations of the IRI")
		zz.Assert(zz.And(a.Iri == req.Iri, zz.And(a.Timestamp.GetSeconds() == row.Timestamp.GetSeconds(), a.Timestamp.GetNanos() == row.Timestamp.GetNanos())), "C17 AttestationsByIRI returns the stored timestamp")
		for j := 0; j < i; j++ {
			zz.Assert(res.Attestations[j].Attestor != a.Attestor, "C17 AttestationsByIRI returns no attestation twice")
		}
	}
	att := zz.NondetBytesAtom("sk.attestor")
	if zz.OrmExists0(tDataAttestor, id.Id, att) {
		in := false
		for _, a := range res.Attestations {
			in = zz.Or(in, a.Attestor == sdk.AccAddress(att).String())
		}
		zz.Assert(in, "C17 AttestationsByIRI returns every stored attestation of the IRI")
	}
	zz.Reach("query succeeds")
}

func zzvResolverInfoOK(r *data.ResolverInfo, row *api.Resolver) bool {
	return zz.And(r.Url == row.Url, r.Manager == sdk.AccAddress(row.Manager).String())
}

func VerifHarness_C17_ResolversByIRI() {
	zzvInstall17()
	s := zzvSymServer()
	req := &data.QueryResolversByIRIRequest{}
	zz.NondetInto("req", req)
	req.Pagination = nil
	res, err := s.ResolversByIRI(zz.Context(), req)
	var id api.DataID
	found := zz.OrmLookup0(tDataID, "Iri", &id, req.Iri)
	if err != nil {
		zz.Reach("query fails")
		return
	}
	zz.Assert(found, "C17 ResolversByIRI succeeds only for an anchored IRI")
	for i, r := range res.Resolvers {
		var row api.Resolver
		has := zz.OrmRow0(tResolver, &row, r.Id)
		zz.Assert(zz.And(has, zz.OrmExists0(tDataResolver, id.Id, r.Id)), "C17 ResolversByIRI returns only resolvers the IRI is registered to")
		zz.Assert(zzvResolverInfoOK(r, &row), "C17 ResolversByIRI returns the stored fields of each resolver")
		for j := 0; j < i; j++ {
			zz.Assert(res.Resolvers[j].Id != r.Id, "C17 ResolversByIRI returns no resolver twice")
		}
	}
	rid := zz.NondetU64("sk.resolver")
	if zz.OrmExists0(tDataResolver, id.Id, rid) {
		in := false
		for _, r := range res.Resolvers {
			in = zz.Or(in, r.Id == rid)
		}
		zz.Assert(in, "C17 ResolversByIRI returns every resolver the IRI is registered to")
	}
	zz.Reach("query succeeds")
}

func VerifHarness_C17_ResolversByURL() {
	zzvInstall17()
	s := zzvSymServer()
	req := &data.QueryResolversByURLRequest{}
	zz.NondetInto("req", req)
	req.Pagination = nil
	res, err := s.ResolversByURL(zz.Context(), req)
	if err != nil {
		zz.Assert(req.Url == "", "C17 ResolversByURL fails only for an empty URL")
		zz.Reach("query fails")
		return
	}
	for i, r := range res.Resolvers {
		var row api.Resolver
		has := zz.OrmRow0(tResolver, &row, r.Id)
		zz.Assert(zz.And(has, row.Url == req.Url), "C17 ResolversByURL returns only resolvers with the URL")
		zz.Assert(zzvResolverInfoOK(r, &row), "C17 ResolversByURL returns the stored fields of each resolver")
		for j := 0; j < i; j++ {
			zz.Assert(res.Resolvers[j].Id != r.Id, "C17 ResolversByURL returns no resolver twice")
		}
	}
	rid := zz.NondetU64("sk.resolver")
	var row api.Resolver
	if zz.OrmRow0(tResolver, &row, rid) {
		in := false
		for _, r := range res.Resolvers {
			in = zz.Or(in, r.Id == rid)
		}
		zz.Assert(zz.Implies(row.Url == req.Url, in), "C17 ResolversByURL returns every resolver with the URL")
	}
	zz.Reach("query succeeds")
}
