//go:build verif

package data

import (
	"github.com/cosmos/btcutil/base58"

	zz "github.com/regen-network/regen-ledger/x/data/v3/zzverif"
)

func init() {
	zz.B58Encode = func(payload []byte, version byte) string { return base58.CheckEncode(payload, version) }
}

const zzvDataPkg = "github.com/regen-network/regen-ledger/x/data/v3"

// The validators loop over the extension characters; their paths are merged so that each
// caller forks once on "valid or not" instead of once per character class.
func zzvMergeValidators() {
	zz.MergeCallee("(*" + zzvDataPkg + ".ContentHash_Raw).Validate")
	zz.MergeCallee("(*" + zzvDataPkg + ".ContentHash_Graph).Validate")
	zz.MergeCallee("(" + zzvDataPkg + ".ContentHash).Validate")
}

func zzvHashLen() int {
	zzvMergeValidators()
	lo := zz.Bound("hash_lo", 20)
	hi := zz.Bound("hash_hi", 64)
	step := zz.Bound("hash_step", 1)
	n := lo + step*zz.NondetChoice("hashlen", (hi-lo)/step+1)
	if n > hi {
		n = hi
	}
	return n
}

func zzvExtLen() int { return 2 + zz.NondetChoice("extlen", 5) }

func zzvNondetRaw(label string, n int) *ContentHash_Raw {
	return &ContentHash_Raw{
		Hash:            zz.NondetBytes(label+".hash", n),
		DigestAlgorithm: zz.NondetU32(label + ".alg"),
		FileExtension:   zz.NondetString(label+".ext", zzvExtLen()),
	}
}

func zzvNondetGraph(label string, n int) *ContentHash_Graph {
	return &ContentHash_Graph{
		Hash:                      zz.NondetBytes(label+".hash", n),
		DigestAlgorithm:           zz.NondetU32(label + ".alg"),
		CanonicalizationAlgorithm: zz.NondetU32(label + ".c14n"),
		MerkleTree:                zz.NondetU32(label + ".merkle"),
	}
}

func zzvRawEq(a, b *ContentHash_Raw) bool {
	return zz.And(zz.And(zz.BytesEq(a.Hash, b.Hash), a.DigestAlgorithm == b.DigestAlgorithm), zz.StrEq(a.FileExtension, b.FileExtension))
}

func zzvGraphEq(a, b *ContentHash_Graph) bool {
	return zz.And(zz.And(zz.BytesEq(a.Hash, b.Hash), a.DigestAlgorithm == b.DigestAlgorithm),
		zz.And(a.CanonicalizationAlgorithm == b.CanonicalizationAlgorithm, a.MerkleTree == b.MerkleTree))
}

// (a) a valid raw hash survives ToIRI -> ParseIRI unchanged
func VerifHarness_C15_RawRoundTrip() {
	h := zzvNondetRaw("h", zzvHashLen())
	zz.Assume(h.Validate() == nil)
	iri, err := h.ToIRI()
	zz.Assert(err == nil, "C15 ToIRI succeeds on a valid raw hash")
	if err != nil {
		return
	}
	back, err := ParseIRI(iri)
	zz.Assert(err == nil, "C15 ParseIRI accepts the IRI of a valid raw hash")
	if err != nil {
		return
	}
	zz.Assert(back.Graph == nil && back.Raw != nil, "C15 raw IRI parses back as a raw hash")
	if back.Raw != nil {
		zz.Assert(zzvRawEq(back.Raw, h), "C15 raw round trip returns the identical content hash")
	}
	zz.Reach("raw round trip")
}

// (a) a valid graph hash survives ToIRI -> ParseIRI unchanged
func VerifHarness_C15_GraphRoundTrip() {
	h := zzvNondetGraph("h", zzvHashLen())
	zz.Assume(h.Validate() == nil)
	iri, err := h.ToIRI()
	zz.Assert(err == nil, "C15 ToIRI succeeds on a valid graph hash")
	if err != nil {
		return
	}
	back, err := ParseIRI(iri)
	zz.Assert(err == nil, "C15 ParseIRI accepts the IRI of a valid graph hash")
	if err != nil {
		return
	}
	zz.Assert(back.Raw == nil && back.Graph != nil, "C15 graph IRI parses back as a graph hash")
	if back.Graph != nil {
		zz.Assert(zzvGraphEq(back.Graph, h), "C15 graph round trip returns the identical content hash")
	}
	zz.Reach("graph round trip")
}

// (b) two different valid content hashes never share an IRI
func VerifHarness_C15_InjectiveRawRaw() {
	n := zzvHashLen()
	h1, h2 := zzvNondetRaw("h1", n), zzvNondetRaw("h2", n)
	zz.Assume(h1.Validate() == nil)
	zz.Assume(h2.Validate() == nil)
	i1, _ := h1.ToIRI()
	i2, _ := h2.ToIRI()
	zz.Assert(zz.Implies(zz.StrEq(i1, i2), zzvRawEq(h1, h2)), "C15 raw hashes with the same IRI are identical")
	zz.Reach("raw/raw")
}

func VerifHarness_C15_InjectiveGraphGraph() {
	n := zzvHashLen()
	h1, h2 := zzvNondetGraph("h1", n), zzvNondetGraph("h2", n)
	zz.Assume(h1.Validate() == nil)
	zz.Assume(h2.Validate() == nil)
	i1, _ := h1.ToIRI()
	i2, _ := h2.ToIRI()
	zz.Assert(zz.Implies(zz.StrEq(i1, i2), zzvGraphEq(h1, h2)), "C15 graph hashes with the same IRI are identical")
	zz.Reach("graph/graph")
}

func VerifHarness_C15_InjectiveRawGraph() {
	// a raw hash of n+2 bytes and a graph hash of n bytes have payloads of equal length
	n := zzvHashLen()
	zz.Assume(n+2 <= 64)
	h1, h2 := zzvNondetRaw("h1", n+2), zzvNondetGraph("h2", n)
	zz.Assume(h1.Validate() == nil)
	zz.Assume(h2.Validate() == nil)
	i1, _ := h1.ToIRI()
	i2, _ := h2.ToIRI()
	zz.Assert(zz.Not(zz.StrEq(i1, i2)), "C15 a raw and a graph hash never share an IRI")
	zz.Reach("raw/graph")
}

// (c) any IRI the parser accepts (and whose hash validates) re-encodes to the same string
func VerifHarness_C15_ParseThenEncode() {
	// payload: type byte + algorithm bytes + hash
	zzvMergeValidators()
	n := zzvHashLen() + 1 + zz.NondetChoice("extra", 4)
	payload := zz.NondetBytes("payload", n)
	ver := zz.NondetU8("version")
	ext := zz.NondetString("ext", zzvExtLen())
	iri := "regen:" + zz.B58String(payload, ver) + "." + ext
	ch, err := ParseIRI(iri)
	if err != nil {
		zz.Reach("rejected")
		return
	}
	zz.Assume(ch.Validate() == nil)
	again, err := ch.ToIRI()
	zz.Assert(err == nil, "C15 an accepted, valid IRI can be re-encoded")
	zz.Assert(zz.StrEq(again, iri), "C15 an accepted IRI re-encodes to the identical string")
	zz.Reach("accepted")
}
