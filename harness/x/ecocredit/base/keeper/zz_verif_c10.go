//go:build verif

package keeper

import (
	"context"

	types "github.com/regen-network/regen-ledger/x/ecocredit/v3/base/types/v1"
	"github.com/regen-network/regen-ledger/x/ecocredit/v3/zzinv"
)

// C10: determinism of every message handler by self-composition (zzinv.RunDet).

func VerifHarness_C10_Send() {
	zzinv.Install()
	k, _ := zzvSymKeeper()
	req := &types.MsgSend{}
	zzinv.RunDet(&k, req, func(ctx context.Context) (interface{}, error) { return k.Send(ctx, req) })
}

func VerifHarness_C10_Retire() {
	zzinv.Install()
	k, _ := zzvSymKeeper()
	req := &types.MsgRetire{}
	zzinv.RunDet(&k, req, func(ctx context.Context) (interface{}, error) { return k.Retire(ctx, req) })
}

func VerifHarness_C10_Cancel() {
	zzinv.Install()
	k, _ := zzvSymKeeper()
	req := &types.MsgCancel{}
	zzinv.RunDet(&k, req, func(ctx context.Context) (interface{}, error) { return k.Cancel(ctx, req) })
}

func VerifHarness_C10_Bridge() {
	zzinv.Install()
	k, _ := zzvSymKeeper()
	req := &types.MsgBridge{}
	zzinv.RunDet(&k, req, func(ctx context.Context) (interface{}, error) { return k.Bridge(ctx, req) })
}

func VerifHarness_C10_CreateBatch() {
	zzinv.Install()
	k, _ := zzvSymKeeper()
	req := &types.MsgCreateBatch{}
	zzinv.RunDet(&k, req, func(ctx context.Context) (interface{}, error) { return k.CreateBatch(ctx, req) })
}

func VerifHarness_C10_MintBatchCredits() {
	zzinv.Install()
	k, _ := zzvSymKeeper()
	req := &types.MsgMintBatchCredits{}
	zzinv.RunDet(&k, req, func(ctx context.Context) (interface{}, error) { return k.MintBatchCredits(ctx, req) })
}

func VerifHarness_C10_BridgeReceive() {
	zzinv.Install()
	k, _ := zzvSymKeeper()
	req := &types.MsgBridgeReceive{}
	zzinv.RunDet(&k, req, func(ctx context.Context) (interface{}, error) { return k.BridgeReceive(ctx, req) })
}

func VerifHarness_C10_SealBatch() {
	zzinv.Install()
	k, _ := zzvSymKeeper()
	req := &types.MsgSealBatch{}
	zzinv.RunDet(&k, req, func(ctx context.Context) (interface{}, error) { return k.SealBatch(ctx, req) })
}

func VerifHarness_C10_CreateClass() {
	zzinv.Install()
	k, _ := zzvSymKeeper()
	req := &types.MsgCreateClass{}
	zzinv.RunDet(&k, req, func(ctx context.Context) (interface{}, error) { return k.CreateClass(ctx, req) })
}

func VerifHarness_C10_CreateProject() {
	zzinv.Install()
	k, _ := zzvSymKeeper()
	req := &types.MsgCreateProject{}
	zzinv.RunDet(&k, req, func(ctx context.Context) (interface{}, error) { return k.CreateProject(ctx, req) })
}

func VerifHarness_C10_UpdateClassAdmin() {
	zzinv.Install()
	k, _ := zzvSymKeeper()
	req := &types.MsgUpdateClassAdmin{}
	zzinv.RunDet(&k, req, func(ctx context.Context) (interface{}, error) { return k.UpdateClassAdmin(ctx, req) })
}

func VerifHarness_C10_UpdateClassIssuers() {
	zzinv.Install()
	k, _ := zzvSymKeeper()
	req := &types.MsgUpdateClassIssuers{}
	zzinv.RunDet(&k, req, func(ctx context.Context) (interface{}, error) { return k.UpdateClassIssuers(ctx, req) })
}

func VerifHarness_C10_UpdateClassMetadata() {
	zzinv.Install()
	k, _ := zzvSymKeeper()
	req := &types.MsgUpdateClassMetadata{}
	zzinv.RunDet(&k, req, func(ctx context.Context) (interface{}, error) { return k.UpdateClassMetadata(ctx, req) })
}

func VerifHarness_C10_UpdateProjectAdmin() {
	zzinv.Install()
	k, _ := zzvSymKeeper()
	req := &types.MsgUpdateProjectAdmin{}
	zzinv.RunDet(&k, req, func(ctx context.Context) (interface{}, error) { return k.UpdateProjectAdmin(ctx, req) })
}

func VerifHarness_C10_UpdateProjectMetadata() {
	zzinv.Install()
	k, _ := zzvSymKeeper()
	req := &types.MsgUpdateProjectMetadata{}
	zzinv.RunDet(&k, req, func(ctx context.Context) (interface{}, error) { return k.UpdateProjectMetadata(ctx, req) })
}

func VerifHarness_C10_UpdateBatchMetadata() {
	zzinv.Install()
	k, _ := zzvSymKeeper()
	req := &types.MsgUpdateBatchMetadata{}
	zzinv.RunDet(&k, req, func(ctx context.Context) (interface{}, error) { return k.UpdateBatchMetadata(ctx, req) })
}

func VerifHarness_C10_AddCreditType() {
	zzinv.Install()
	k, _ := zzvSymKeeper()
	req := &types.MsgAddCreditType{}
	zzinv.RunDet(&k, req, func(ctx context.Context) (interface{}, error) { return k.AddCreditType(ctx, req) })
}

func VerifHarness_C10_SetClassCreatorAllowlist() {
	zzinv.Install()
	k, _ := zzvSymKeeper()
	req := &types.MsgSetClassCreatorAllowlist{}
	zzinv.RunDet(&k, req, func(ctx context.Context) (interface{}, error) { return k.SetClassCreatorAllowlist(ctx, req) })
}

func VerifHarness_C10_AddClassCreator() {
	zzinv.Install()
	k, _ := zzvSymKeeper()
	req := &types.MsgAddClassCreator{}
	zzinv.RunDet(&k, req, func(ctx context.Context) (interface{}, error) { return k.AddClassCreator(ctx, req) })
}

func VerifHarness_C10_RemoveClassCreator() {
	zzinv.Install()
	k, _ := zzvSymKeeper()
	req := &types.MsgRemoveClassCreator{}
	zzinv.RunDet(&k, req, func(ctx context.Context) (interface{}, error) { return k.RemoveClassCreator(ctx, req) })
}

func VerifHarness_C10_UpdateClassFee() {
	zzinv.Install()
	k, _ := zzvSymKeeper()
	req := &types.MsgUpdateClassFee{}
	zzinv.RunDet(&k, req, func(ctx context.Context) (interface{}, error) { return k.UpdateClassFee(ctx, req) })
}

func VerifHarness_C10_AddAllowedBridgeChain() {
	zzinv.Install()
	k, _ := zzvSymKeeper()
	req := &types.MsgAddAllowedBridgeChain{}
	zzinv.RunDet(&k, req, func(ctx context.Context) (interface{}, error) { return k.AddAllowedBridgeChain(ctx, req) })
}

func VerifHarness_C10_RemoveAllowedBridgeChain() {
	zzinv.Install()
	k, _ := zzvSymKeeper()
	req := &types.MsgRemoveAllowedBridgeChain{}
	zzinv.RunDet(&k, req, func(ctx context.Context) (interface{}, error) { return k.RemoveAllowedBridgeChain(ctx, req) })
}

func VerifHarness_C10_BurnRegen() {
	zzinv.Install()
	k, _ := zzvSymKeeper()
	req := &types.MsgBurnRegen{}
	zzinv.RunDet(&k, req, func(ctx context.Context) (interface{}, error) { return k.BurnRegen(ctx, req) })
}
