//go:build verif

package keeper

import (
	"strings"

	gogotypes "github.com/cosmos/gogoproto/types"
	"google.golang.org/protobuf/types/known/timestamppb"

	sdk "github.com/cosmos/cosmos-sdk/types"

	api "github.com/regen-network/regen-ledger/api/v2/regen/ecocredit/v1"
	"github.com/regen-network/regen-ledger/x/ecocredit/v3/base"
	types "github.com/regen-network/regen-ledger/x/ecocredit/v3/base/types/v1"
	"github.com/regen-network/regen-ledger/x/ecocredit/v3/zzinv"
	zz "github.com/regen-network/regen-ledger/x/ecocredit/v3/zzverif"
)

// C17: each list query returns exactly the rows of the (arbitrary, R-satisfying) state that
// satisfy its specified filter, each with the stored field values. The page walk itself
// (offset/key/limit/total) is the ORM paginator's and is outside; requests carry the
// default pagination and states have at most `iter` matching rows.

func VerifHarness_C17_Balances() {
	zzinv.Install()
	k, _ := zzvSymKeeper()
	req := &types.QueryBalancesRequest{}
	zz.NondetInto("req", req)
	req.Pagination = nil
	res, err := k.Balances(zz.Context(), req)
	addr, aerr := sdk.AccAddressFromBech32(req.Address)
	if err != nil {
		zz.Assert(aerr != nil, "C17 Balances fails only for an invalid address")
		zz.Reach("query fails")
		return
	}
	for i, b := range res.Balances {
		var batch api.Batch
		found := zz.OrmLookup0(zzinv.TBatch, "Denom", &batch, b.BatchDenom)
		var row api.BatchBalance
		has := zz.OrmRow0(zzinv.TBatchBalance, &row, []byte(addr), batch.Key)
		zz.Assert(zz.And(found, has), "C17 Balances returns only stored balances of the address")
		zz.Assert(zz.And(b.Address == addr.String(), zz.And(b.TradableAmount == row.TradableAmount, zz.And(b.RetiredAmount == row.RetiredAmount, b.EscrowedAmount == row.EscrowedAmount))), "C17 Balances returns the stored amounts")
		for j := 0; j < i; j++ {
			zz.Assert(res.Balances[j].BatchDenom != b.BatchDenom, "C17 Balances returns no balance twice")
		}
	}
	// completeness for an arbitrary batch
	bk := zz.NondetU64("sk.batch")
	var row api.BatchBalance
	var batch api.Batch
	if zz.OrmRow0(zzinv.TBatchBalance, &row, []byte(addr), bk) {
		zz.OrmRow0(zzinv.TBatch, &batch, bk)
		in := false
		for _, b := range res.Balances {
			in = zz.Or(in, b.BatchDenom == batch.Denom)
		}
		zz.Assert(in, "C17 Balances returns every stored balance of the address")
	}
	zz.Reach("query succeeds")
}

// denomLemmas: the two prefix-freedom lemmas proved at byte level by
// VerifHarness_C14_ParsersOnValidDenom, instantiated for one stored (valid) batch denom.
func zzvDenomLemmas(denom, classID, projectID string) {
	zz.Assume(strings.HasPrefix(denom, classID+"-") == (base.GetClassIDFromBatchDenom(denom) == classID))
	zz.Assume(strings.HasPrefix(denom, projectID+"-") == (base.GetProjectIDFromBatchDenom(denom) == projectID))
}

func zzvSameTime(a *gogotypes.Timestamp, b *timestamppb.Timestamp) bool {
	if a == nil || b == nil {
		return a == nil && b == nil
	}
	return zz.And(a.Seconds == b.Seconds, a.Nanos == b.Nanos)
}

// batchInfoOK: the returned item is the stored batch with that denom, field by field.
func zzvBatchInfoOK(b *types.BatchInfo, row *api.Batch, proj *api.Project) bool {
	// the issuer is returned as an address string that decodes to the stored bytes (some
	// queries echo the request string, others re-encode: both denote the stored address)
	issuerOK := zz.Merged(func() bool {
		a, err := sdk.AccAddressFromBech32(b.Issuer)
		return err == nil && zz.BytesEq(a, row.Issuer)
	})
	return zz.And(zz.And(issuerOK, b.ProjectId == proj.Id),
		zz.And(zz.And(b.Metadata == row.Metadata, b.Open == row.Open),
			zz.And(zzvSameTime(b.StartDate, row.StartDate), zz.And(zzvSameTime(b.EndDate, row.EndDate), zzvSameTime(b.IssuanceDate, row.IssuanceDate)))))
}

// checkBatchList: soundness, field fidelity, no duplicates, and completeness for an arbitrary
// batch key, for a list of batches against the filter want(batch row, its project row).
func zzvCheckBatchList(name string, got []*types.BatchInfo, want func(row *api.Batch, proj *api.Project) bool, lemma func(denom string)) {
	for i, b := range got {
		var row api.Batch
		found := zz.OrmLookup0(zzinv.TBatch, "Denom", &row, b.Denom)
		var proj api.Project
		pf := zz.OrmRow0(zzinv.TProject, &proj, row.ProjectKey)
		if lemma != nil {
			lemma(b.Denom)
		}
		zz.Assert(zz.And(zz.And(found, pf), want(&row, &proj)), "C17 "+name+" returns only batches that satisfy the filter")
		zz.Assert(zzvBatchInfoOK(b, &row, &proj), "C17 "+name+" returns the stored fields of each batch")
		for j := 0; j < i; j++ {
			zz.Assert(got[j].Denom != b.Denom, "C17 "+name+" returns no batch twice")
		}
	}
	bk := zz.NondetU64("sk.batch")
	var row api.Batch
	var proj api.Project
	if zz.OrmRow0(zzinv.TBatch, &row, bk) {
		zz.OrmRow0(zzinv.TProject, &proj, row.ProjectKey)
		if lemma != nil {
			lemma(row.Denom)
		}
		in := false
		for _, b := range got {
			in = zz.Or(in, b.Denom == row.Denom)
		}
		zz.Assert(zz.Implies(want(&row, &proj), in), "C17 "+name+" returns every batch that satisfies the filter")
	}
}

func VerifHarness_C17_BatchesByClass() {
	zzinv.Install()
	k, _ := zzvSymKeeper()
	req := &types.QueryBatchesByClassRequest{}
	zz.NondetInto("req", req)
	req.Pagination = nil
	res, err := k.BatchesByClass(zz.Context(), req)
	var class api.Class
	found := zz.OrmLookup0(zzinv.TClass, "Id", &class, req.ClassId)
	if err != nil {
		zz.Assert(!found, "C17 BatchesByClass fails only for an unknown class")
		zz.Reach("query fails")
		return
	}
	zz.Assert(found, "C17 BatchesByClass succeeds only for a known class")
	zzvCheckBatchList("BatchesByClass", res.Batches, func(row *api.Batch, proj *api.Project) bool { return proj.ClassKey == class.Key },
		func(denom string) { zzvDenomLemmas(denom, class.Id, "") })
	zz.Reach("query succeeds")
}

func VerifHarness_C17_BatchesByProject() {
	zzinv.Install()
	k, _ := zzvSymKeeper()
	req := &types.QueryBatchesByProjectRequest{}
	zz.NondetInto("req", req)
	req.Pagination = nil
	res, err := k.BatchesByProject(zz.Context(), req)
	var project api.Project
	found := zz.OrmLookup0(zzinv.TProject, "Id", &project, req.ProjectId)
	if err != nil {
		zz.Assert(!found, "C17 BatchesByProject fails only for an unknown project")
		zz.Reach("query fails")
		return
	}
	zz.Assert(found, "C17 BatchesByProject succeeds only for a known project")
	zzvCheckBatchList("BatchesByProject", res.Batches, func(row *api.Batch, proj *api.Project) bool { return row.ProjectKey == project.Key },
		func(denom string) { zzvDenomLemmas(denom, "", project.Id) })
	zz.Reach("query succeeds")
}

func VerifHarness_C17_BatchesByIssuer() {
	zzinv.Install()
	k, _ := zzvSymKeeper()
	req := &types.QueryBatchesByIssuerRequest{}
	zz.NondetInto("req", req)
	req.Pagination = nil
	res, err := k.BatchesByIssuer(zz.Context(), req)
	issuer, aerr := sdk.AccAddressFromBech32(req.Issuer)
	if err != nil {
		zz.Assert(aerr != nil, "C17 BatchesByIssuer fails only for an invalid address")
		zz.Reach("query fails")
		return
	}
	zzvCheckBatchList("BatchesByIssuer", res.Batches, func(row *api.Batch, proj *api.Project) bool { return zz.BytesEq(row.Issuer, issuer) }, nil)
	zz.Reach("query succeeds")
}

func zzvProjectInfoOK(p *types.ProjectInfo, row *api.Project, class *api.Class) bool {
	adminOK := zz.Merged(func() bool {
		a, err := sdk.AccAddressFromBech32(p.Admin)
		return err == nil && zz.BytesEq(a, row.Admin)
	})
	return zz.And(zz.And(adminOK, p.ClassId == class.Id), zz.And(zz.And(p.Jurisdiction == row.Jurisdiction, p.Metadata == row.Metadata), p.ReferenceId == row.ReferenceId))
}

func zzvCheckProjectList(name string, got []*types.ProjectInfo, want func(row *api.Project) bool) {
	for i, p := range got {
		var row api.Project
		found := zz.OrmLookup0(zzinv.TProject, "Id", &row, p.Id)
		var class api.Class
		cf := zz.OrmRow0(zzinv.TClass, &class, row.ClassKey)
		zz.Assert(zz.And(zz.And(found, cf), want(&row)), "C17 "+name+" returns only projects that satisfy the filter")
		zz.Assert(zzvProjectInfoOK(p, &row, &class), "C17 "+name+" returns the stored fields of each project")
		for j := 0; j < i; j++ {
			zz.Assert(got[j].Id != p.Id, "C17 "+name+" returns no project twice")
		}
	}
	pk := zz.NondetU64("sk.project")
	var row api.Project
	if zz.OrmRow0(zzinv.TProject, &row, pk) {
		in := false
		for _, p := range got {
			in = zz.Or(in, p.Id == row.Id)
		}
		zz.Assert(zz.Implies(want(&row), in), "C17 "+name+" returns every project that satisfies the filter")
	}
}

func VerifHarness_C17_ProjectsByClass() {
	zzinv.Install()
	k, _ := zzvSymKeeper()
	req := &types.QueryProjectsByClassRequest{}
	zz.NondetInto("req", req)
	req.Pagination = nil
	res, err := k.ProjectsByClass(zz.Context(), req)
	var class api.Class
	found := zz.OrmLookup0(zzinv.TClass, "Id", &class, req.ClassId)
	if err != nil {
		zz.Assert(!found, "C17 ProjectsByClass fails only for an unknown class")
		zz.Reach("query fails")
		return
	}
	zz.Assert(found, "C17 ProjectsByClass succeeds only for a known class")
	zzvCheckProjectList("ProjectsByClass", res.Projects, func(row *api.Project) bool { return row.ClassKey == class.Key })
	zz.Reach("query succeeds")
}

func VerifHarness_C17_ProjectsByAdmin() {
	zzinv.Install()
	k, _ := zzvSymKeeper()
	req := &types.QueryProjectsByAdminRequest{}
	zz.NondetInto("req", req)
	req.Pagination = nil
	res, err := k.ProjectsByAdmin(zz.Context(), req)
	admin, aerr := sdk.AccAddressFromBech32(req.Admin)
	if err != nil {
		zz.Assert(aerr != nil, "C17 ProjectsByAdmin fails only for an invalid address")
		zz.Reach("query fails")
		return
	}
	zzvCheckProjectList("ProjectsByAdmin", res.Projects, func(row *api.Project) bool { return zz.BytesEq(row.Admin, admin) })
	zz.Reach("query succeeds")
}

func VerifHarness_C17_ProjectsByReferenceId() {
	zzinv.Install()
	k, _ := zzvSymKeeper()
	req := &types.QueryProjectsByReferenceIdRequest{}
	zz.NondetInto("req", req)
	req.Pagination = nil
	res, err := k.ProjectsByReferenceId(zz.Context(), req)
	if err != nil {
		zz.Assert(req.ReferenceId == "", "C17 ProjectsByReferenceId fails only for an empty reference id")
		zz.Reach("query fails")
		return
	}
	zzvCheckProjectList("ProjectsByReferenceId", res.Projects, func(row *api.Project) bool { return row.ReferenceId == req.ReferenceId })
	zz.Reach("query succeeds")
}

func VerifHarness_C17_ClassesByAdmin() {
	zzinv.Install()
	k, _ := zzvSymKeeper()
	req := &types.QueryClassesByAdminRequest{}
	zz.NondetInto("req", req)
	req.Pagination = nil
	res, err := k.ClassesByAdmin(zz.Context(), req)
	admin, aerr := sdk.AccAddressFromBech32(req.Admin)
	if err != nil {
		zz.Assert(aerr != nil, "C17 ClassesByAdmin fails only for an invalid address")
		zz.Reach("query fails")
		return
	}
	for i, c := range res.Classes {
		var row api.Class
		found := zz.OrmLookup0(zzinv.TClass, "Id", &row, c.Id)
		zz.Assert(zz.And(found, zz.BytesEq(row.Admin, admin)), "C17 ClassesByAdmin returns only classes of the admin")
		adminOK := zz.Merged(func() bool {
			a, err := sdk.AccAddressFromBech32(c.Admin)
			return err == nil && zz.BytesEq(a, row.Admin)
		})
		zz.Assert(zz.And(adminOK, zz.And(c.Metadata == row.Metadata, c.CreditTypeAbbrev == row.CreditTypeAbbrev)), "C17 ClassesByAdmin returns the stored fields of each class")
		for j := 0; j < i; j++ {
			zz.Assert(res.Classes[j].Id != c.Id, "C17 ClassesByAdmin returns no class twice")
		}
	}
	ck := zz.NondetU64("sk.class")
	var row api.Class
	if zz.OrmRow0(zzinv.TClass, &row, ck) {
		in := false
		for _, c := range res.Classes {
			in = zz.Or(in, c.Id == row.Id)
		}
		zz.Assert(zz.Implies(zz.BytesEq(row.Admin, admin), in), "C17 ClassesByAdmin returns every class of the admin")
	}
	zz.Reach("query succeeds")
}

func VerifHarness_C17_BalancesByBatch() {
	zzinv.Install()
	k, _ := zzvSymKeeper()
	req := &types.QueryBalancesByBatchRequest{}
	zz.NondetInto("req", req)
	req.Pagination = nil
	res, err := k.BalancesByBatch(zz.Context(), req)
	var batch api.Batch
	found := zz.OrmLookup0(zzinv.TBatch, "Denom", &batch, req.BatchDenom)
	if err != nil {
		zz.Assert(!found, "C17 BalancesByBatch fails only for an unknown batch")
		zz.Reach("query fails")
		return
	}
	zz.Assert(found, "C17 BalancesByBatch succeeds only for a known batch")
	for i, b := range res.Balances {
		addr, aerr := sdk.AccAddressFromBech32(b.Address)
		var row api.BatchBalance
		has := zz.OrmRow0(zzinv.TBatchBalance, &row, []byte(addr), batch.Key)
		zz.Assert(zz.And(aerr == nil, has), "C17 BalancesByBatch returns only stored balances of the batch")
		zz.Assert(zz.And(b.BatchDenom == batch.Denom, zz.And(b.TradableAmount == row.TradableAmount, zz.And(b.RetiredAmount == row.RetiredAmount, b.EscrowedAmount == row.EscrowedAmount))), "C17 BalancesByBatch returns the stored amounts")
		for j := 0; j < i; j++ {
			zz.Assert(res.Balances[j].Address != b.Address, "C17 BalancesByBatch returns no balance twice")
		}
	}
	acct := zz.NondetBytesAtom("sk.acct")
	var row api.BatchBalance
	if zz.OrmRow0(zzinv.TBatchBalance, &row, acct, batch.Key) {
		in := false
		for _, b := range res.Balances {
			in = zz.Or(in, b.Address == sdk.AccAddress(acct).String())
		}
		zz.Assert(in, "C17 BalancesByBatch returns every stored balance of the batch")
	}
	zz.Reach("query succeeds")
}

// single-entity queries return the stored values
func VerifHarness_C17_Balance() {
	zzinv.Install()
	k, _ := zzvSymKeeper()
	req := &types.QueryBalanceRequest{}
	zz.NondetInto("req", req)
	res, err := k.Balance(zz.Context(), req)
	var batch api.Batch
	found := zz.OrmLookup0(zzinv.TBatch, "Denom", &batch, req.BatchDenom)
	addr, aerr := sdk.AccAddressFromBech32(req.Address)
	if err != nil {
		zz.Assert(zz.Or(!found, aerr != nil), "C17 Balance fails only for an unknown batch or an invalid address")
		zz.Reach("query fails")
		return
	}
	var row api.BatchBalance
	has := zz.OrmRow0(zzinv.TBatchBalance, &row, []byte(addr), batch.Key)
	b := res.Balance
	zero := func(s string) bool { return zz.Or(s == "0", s == "") }
	zz.Assert(zz.And(b.Address == addr.String(), b.BatchDenom == batch.Denom), "C17 Balance names the requested account and batch")
	zz.Assert(zz.Implies(has, zz.And(b.TradableAmount == row.TradableAmount, zz.And(b.RetiredAmount == row.RetiredAmount, b.EscrowedAmount == row.EscrowedAmount))), "C17 Balance returns the stored amounts")
	zz.Assert(zz.Implies(!has, zz.And(zero(b.TradableAmount), zz.And(zero(b.RetiredAmount), zero(b.EscrowedAmount)))), "C17 Balance of an account without a row is zero")
	zz.Reach("query succeeds")
}

func VerifHarness_C17_Supply() {
	zzinv.Install()
	k, _ := zzvSymKeeper()
	req := &types.QuerySupplyRequest{}
	zz.NondetInto("req", req)
	res, err := k.Supply(zz.Context(), req)
	var batch api.Batch
	found := zz.OrmLookup0(zzinv.TBatch, "Denom", &batch, req.BatchDenom)
	if err != nil {
		zz.Assert(!found, "C17 Supply fails only for an unknown batch (every batch has a supply row)")
		zz.Reach("query fails")
		return
	}
	var row api.BatchSupply
	has := zz.OrmRow0(zzinv.TBatchSupply, &row, batch.Key)
	zz.Assert(zz.And(found, has), "C17 Supply succeeds only for a known batch")
	zz.Assert(zz.And(res.TradableAmount == row.TradableAmount, zz.And(res.RetiredAmount == row.RetiredAmount, res.CancelledAmount == row.CancelledAmount)), "C17 Supply returns the stored amounts")
	zz.Reach("query succeeds")
}
