//go:build verif

package keeper

import (
	sdk "github.com/cosmos/cosmos-sdk/types"

	basketapi "github.com/regen-network/regen-ledger/api/v2/regen/ecocredit/basket/v1"
	marketapi "github.com/regen-network/regen-ledger/api/v2/regen/ecocredit/marketplace/v1"
	api "github.com/regen-network/regen-ledger/api/v2/regen/ecocredit/v1"
	"github.com/regen-network/regen-ledger/x/ecocredit/v3"
	types "github.com/regen-network/regen-ledger/x/ecocredit/v3/base/types/v1"
	"github.com/regen-network/regen-ledger/x/ecocredit/v3/zzinv"
	zz "github.com/regen-network/regen-ledger/x/ecocredit/v3/zzverif"
)

// symKeeper builds the real keeper over the model stores with the real constructor.
func symKeeper() Keeper {
	ss := zz.OrmStore("ecocredit").(api.StateStore)
	bs := zz.OrmStore("basket").(basketapi.StateStore)
	ms := zz.OrmStore("marketplace").(marketapi.StateStore)
	bk := zz.BankKeeper().(ecocredit.BankKeeper)
	return NewKeeper(ss, bk, zz.ModuleAddr(ecocredit.ModuleName), bs, ms, sdk.AccAddress(zz.NondetBytesAtom("authority")))
}

type skolems struct {
	batch uint64
	acct  []byte
	denom string
}

func pickSkolems() skolems {
	return skolems{batch: zz.NondetU64("batch*"), acct: zz.NondetBytesAtom("acct*"), denom: zz.NondetAtom("denom*")}
}

func signerOf(m sdk.Msg) []byte {
	s := m.GetSigners()
	return s[0]
}

func VerifHarness_Step_Send() {
	zzinv.Install()
	k := symKeeper()
	req := &types.MsgSend{}
	zz.NondetInto("req", req)
	zz.Assume(req.ValidateBasic() == nil)
	sk := pickSkolems()
	zz.OrmBegin()
	_, err := k.Send(zz.Context(), req)
	zz.OrmRollbackIf(err != nil)
	zzinv.AssumeSums()
	zzinv.CheckC01(sk.batch)
	zzinv.CheckC02(sk.batch, zz.QInt(0))
	zzinv.CheckC04(sk.acct, sk.batch)
	zz.Assume(zz.Not(zz.BytesEq(sk.acct, signerOf(req))))
	zzinv.CheckC03(sk.acct, sk.batch, sk.denom)
	if err == nil {
		zz.Reach("send succeeds")
	}
}
