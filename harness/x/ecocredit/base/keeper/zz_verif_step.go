//go:build verif

package keeper

import (
	"context"
	"strings"

	sdk "github.com/cosmos/cosmos-sdk/types"

	basketapi "github.com/regen-network/regen-ledger/api/v2/regen/ecocredit/basket/v1"
	marketapi "github.com/regen-network/regen-ledger/api/v2/regen/ecocredit/marketplace/v1"
	api "github.com/regen-network/regen-ledger/api/v2/regen/ecocredit/v1"
	"github.com/regen-network/regen-ledger/x/ecocredit/v3"
	"github.com/regen-network/regen-ledger/x/ecocredit/v3/base"
	types "github.com/regen-network/regen-ledger/x/ecocredit/v3/base/types/v1"
	"github.com/regen-network/regen-ledger/x/ecocredit/v3/zzinv"
	zz "github.com/regen-network/regen-ledger/x/ecocredit/v3/zzverif"
)

// symKeeper builds the real keeper over the model stores with the real constructor.
func zzvSymKeeper() (Keeper, []byte) {
	ss := zz.OrmStore("ecocredit").(api.StateStore)
	bs := zz.OrmStore("basket").(basketapi.StateStore)
	ms := zz.OrmStore("marketplace").(marketapi.StateStore)
	bk := zz.BankKeeper().(ecocredit.BankKeeper)
	authority := zz.NondetBytesAtom("authority")
	return NewKeeper(ss, bk, zz.ModuleAddr(ecocredit.ModuleName), bs, ms, sdk.AccAddress(authority)), authority
}

type zzvStepCtx = zzinv.Step

func zzvRunStep(req sdk.Msg, call func(k Keeper, ctx context.Context) error, issued func(b uint64) zz.Q, hook func(s *zzvStepCtx)) {
	zzinv.Install()
	k, authority := zzvSymKeeper()
	zzinv.RunStep(authority, req, func(ctx context.Context) error { return call(k, ctx) }, issued, hook)
}

func zzvSumIssuance(list []*types.BatchIssuance) zz.Q {
	t := zz.QInt(0)
	for _, i := range list {
		t = zz.QAdd(t, zz.QAdd(zz.QParse(i.TradableAmount), zz.QParse(i.RetiredAmount)))
	}
	return t
}

// ---- credit movement

func VerifHarness_Step_Send() {
	req := &types.MsgSend{}
	zzvRunStep(req, func(k Keeper, ctx context.Context) error { _, err := k.Send(ctx, req); return err }, nil, nil)
}

func VerifHarness_Step_Retire() {
	req := &types.MsgRetire{}
	zzvRunStep(req, func(k Keeper, ctx context.Context) error { _, err := k.Retire(ctx, req); return err }, nil, nil)
}

func VerifHarness_Step_Cancel() {
	req := &types.MsgCancel{}
	zzvRunStep(req, func(k Keeper, ctx context.Context) error { _, err := k.Cancel(ctx, req); return err }, nil, nil)
}

func VerifHarness_Step_Bridge() {
	req := &types.MsgBridge{}
	zzvRunStep(req, func(k Keeper, ctx context.Context) error { _, err := k.Bridge(ctx, req); return err }, nil,
		func(s *zzvStepCtx) {
			if s.Err == nil {
				zz.Assert(zz.OrmExists0("regen.ecocredit.v1.AllowedBridgeChain", strings.ToLower(req.Target)), "C13 Bridge succeeds only for an allowed target chain")
				cancelled := zz.QInt(0)
				for _, c := range req.Credits {
					var bt api.Batch
					found := zz.OrmLookup0(zzinv.TBatch, "Denom", &bt, c.BatchDenom)
					var bc api.BatchContract
					bound := zz.OrmRow0(zzinv.TBatchContract, &bc, bt.Key)
					zz.Assert(zz.And(found, bound), "C13 Bridge succeeds only for batches with a bound contract")
					cancelled = zz.QAdd(cancelled, zz.QIf(bt.Key == s.Sk.Batch, zz.QParse(c.Amount), zz.QInt(0)))
				}
				ds := zzinv.DeltaSupply(s.Sk.Batch)
				zz.Assert(zz.QEq(ds.Cancelled, cancelled), "C13 Bridge cancels exactly the bridged amounts")
				// the events report each batch's own contract
				ne := zz.EventCount()
				nb := 0
				for i := 0; i < ne; i++ {
					var ev types.EventBridge
					if zz.EventAt(i, &ev) {
						var bt api.Batch
						zz.OrmLookup0(zzinv.TBatch, "Denom", &bt, ev.BatchDenom)
						var bc api.BatchContract
						zz.OrmRow0(zzinv.TBatchContract, &bc, bt.Key)
						zz.Assert(zz.StrEq(ev.Contract, bc.Contract), "C13 EventBridge reports the contract bound to the bridged batch")
						nb++
					}
				}
				zz.Assert(nb == len(req.Credits), "C13 Bridge emits one EventBridge per bridged credit entry")
			}
		})
}

// ---- issuance

func VerifHarness_Step_CreateBatch() {
	req := &types.MsgCreateBatch{}
	zzvRunStep(req, func(k Keeper, ctx context.Context) error { _, err := k.CreateBatch(ctx, req); return err },
		func(b uint64) zz.Q {
			// the batch created by this message is the one that exists now and did not before
			created := zz.And(zz.OrmExists1(zzinv.TBatch, b), zz.Not(zz.OrmExists0(zzinv.TBatch, b)))
			return zz.QIf(created, zzvSumIssuance(req.Issuance), zz.QInt(0))
		}, func(s *zzvStepCtx) {
			if s.Err == nil {
				var p api.Project
				found := zz.OrmLookup0(zzinv.TProject, "Id", &p, req.ProjectId)
				zz.Assert(zz.And(found, zz.OrmExists0(zzinv.TClassIssuer, p.ClassKey, s.Signer)), "C08 CreateBatch succeeds only for an issuer of the project's class")
				// C14: consecutive numbering per project
				var seq0, seq1 api.BatchSequence
				has0 := zz.OrmRow0("regen.ecocredit.v1.BatchSequence", &seq0, p.Key)
				has1 := zz.OrmRow1("regen.ecocredit.v1.BatchSequence", &seq1, p.Key)
				n := uint64(1)
				if has0 {
					n = seq0.NextSequence
				}
				zz.Assert(zz.And(has1, seq1.NextSequence == n+1), "C14 CreateBatch advances the project's batch sequence by exactly one")
				// C13: an origin tx is recorded at most once per class
				if req.OriginTx != nil {
					zz.Assert(zz.Not(zz.OrmExists0(zzinv.TOriginTx, p.ClassKey, req.OriginTx.Id, req.OriginTx.Source)), "C13 CreateBatch with an origin tx succeeds only if that origin tx was not used in the class before")
					zz.Assert(zz.OrmExists1(zzinv.TOriginTx, p.ClassKey, req.OriginTx.Id, req.OriginTx.Source), "C13 CreateBatch records the origin tx")
				}
			}
			zz.Assert(zz.OrmDeletes(zzinv.TOriginTx)+zz.OrmDeletes(zzinv.TBatchContract) == 0, "C13 origin tx and contract records are never deleted")
		})
}

func VerifHarness_Step_MintBatchCredits() {
	req := &types.MsgMintBatchCredits{}
	zzvRunStep(req, func(k Keeper, ctx context.Context) error { _, err := k.MintBatchCredits(ctx, req); return err },
		func(b uint64) zz.Q {
			var bt api.Batch
			found := zz.OrmLookup0(zzinv.TBatch, "Denom", &bt, req.BatchDenom)
			return zz.QIf(zz.And(found, bt.Key == b), zzvSumIssuance(req.Issuance), zz.QInt(0))
		}, func(s *zzvStepCtx) {
			if s.Err == nil {
				var bt api.Batch
				found := zz.OrmLookup0(zzinv.TBatch, "Denom", &bt, req.BatchDenom)
				zz.Assert(zz.And(found, zz.And(bt.Open, zz.BytesEq(bt.Issuer, s.Signer))), "C08 mint succeeds only for the batch issuer on an open batch")
				var p api.Project
				zz.OrmRow0(zzinv.TProject, &p, bt.ProjectKey)
				zz.Assert(zz.Not(zz.OrmExists0(zzinv.TOriginTx, p.ClassKey, req.OriginTx.Id, req.OriginTx.Source)), "C13 MintBatchCredits succeeds only if the origin tx was not used in the class before")
				zz.Assert(zz.OrmExists1(zzinv.TOriginTx, p.ClassKey, req.OriginTx.Id, req.OriginTx.Source), "C13 MintBatchCredits records the origin tx")
			}
		})
}

func VerifHarness_Step_BridgeReceive() {
	req := &types.MsgBridgeReceive{}
	zzvRunStep(req, func(k Keeper, ctx context.Context) error { _, err := k.BridgeReceive(ctx, req); return err },
		func(b uint64) zz.Q {
			// credits land in the batch bound to the contract, or else in the batch created now
			var c api.Class
			zz.OrmLookup0(zzinv.TClass, "Id", &c, req.ClassId)
			var bc api.BatchContract
			bound := zz.OrmLookup0(zzinv.TBatchContract, "ClassKeyContract", &bc, c.Key, req.OriginTx.Contract)
			created := zz.And(zz.OrmExists1(zzinv.TBatch, b), zz.Not(zz.OrmExists0(zzinv.TBatch, b)))
			target := zz.BIf(bound, bc.BatchKey == b, created)
			return zz.QIf(target, zz.QParse(req.Batch.Amount), zz.QInt(0))
		}, func(s *zzvStepCtx) {
			if s.Err == nil {
				zz.Assert(zz.OrmExists0("regen.ecocredit.v1.AllowedBridgeChain", strings.ToLower(req.OriginTx.Source)), "C13 BridgeReceive succeeds only for an allowed source chain")
				var c api.Class
				zz.OrmLookup0(zzinv.TClass, "Id", &c, req.ClassId)
				zz.Assert(zz.Not(zz.OrmExists0(zzinv.TOriginTx, c.Key, req.OriginTx.Id, req.OriginTx.Source)), "C13 BridgeReceive succeeds only if the origin tx was not used in the class before")
				zz.Assert(zz.OrmExists1(zzinv.TOriginTx, c.Key, req.OriginTx.Id, req.OriginTx.Source), "C13 BridgeReceive records the origin tx")
				var bc0, bc1 api.BatchContract
				bound0 := zz.OrmLookup0(zzinv.TBatchContract, "ClassKeyContract", &bc0, c.Key, req.OriginTx.Contract)
				bound1 := zz.OrmLookup1(zzinv.TBatchContract, "ClassKeyContract", &bc1, c.Key, req.OriginTx.Contract)
				zz.Assert(bound1, "C13 after BridgeReceive the contract is bound to a batch of the class")
				zz.Assert(zz.Implies(bound0, bc0.BatchKey == bc1.BatchKey), "C13 a contract stays bound to the same batch")
			}
		})
}

func VerifHarness_Step_SealBatch() {
	req := &types.MsgSealBatch{}
	zzvRunStep(req, func(k Keeper, ctx context.Context) error { _, err := k.SealBatch(ctx, req); return err }, nil,
		func(s *zzvStepCtx) {
			if s.Err == nil {
				var bt api.Batch
				found := zz.OrmLookup0(zzinv.TBatch, "Denom", &bt, req.BatchDenom)
				zz.Assert(zz.And(found, zz.BytesEq(bt.Issuer, s.Signer)), "C08 seal succeeds only for the batch issuer")
			}
		})
}

// ---- entity creation and administration

func VerifHarness_Step_CreateClass() {
	req := &types.MsgCreateClass{}
	zzvRunStep(req, func(k Keeper, ctx context.Context) error { _, err := k.CreateClass(ctx, req); return err }, nil,
		func(s *zzvStepCtx) {
			s.SkipC05 = true
			var fee api.ClassFee
			zz.OrmRow0("regen.ecocredit.v1.ClassFee", &fee)
			denom := ""
			if fee.Fee != nil {
				denom = fee.Fee.Denom
			}
			zzinv.CheckC05FeeBurn(s.Sk.Basket, denom, fee.Fee != nil)
			if s.Err != nil && !s.Panicked && fee.Fee != nil {
				feeInt, _ := sdk.NewIntFromString(fee.Fee.Amount)
				offer, same := zz.QInt(0), false
				if req.Fee != nil {
					offer, same = zz.QOf(req.Fee.Amount), zz.StrEq(req.Fee.Denom, fee.Fee.Denom)
				}
				zzinv.CheckFeeNeverDisables("CreateClass", s.Err, true, zz.QOf(feeInt), req.Fee != nil, same, offer, zz.BankBal0(s.Signer, fee.Fee.Denom))
			}
			if s.Err == nil {
				var al api.ClassCreatorAllowlist
				zz.OrmRow0("regen.ecocredit.v1.ClassCreatorAllowlist", &al)
				zz.Assert(zz.Implies(al.Enabled, zz.OrmExists0("regen.ecocredit.v1.AllowedClassCreator", s.Signer)), "C08 with the allowlist on, CreateClass succeeds only for an allow-listed creator")
				// C14: consecutive numbering per credit type
				var seq0, seq1 api.ClassSequence
				has0 := zz.OrmRow0("regen.ecocredit.v1.ClassSequence", &seq0, req.CreditTypeAbbrev)
				has1 := zz.OrmRow1("regen.ecocredit.v1.ClassSequence", &seq1, req.CreditTypeAbbrev)
				n := uint64(1)
				if has0 {
					n = seq0.NextSequence
				}
				zz.Assert(zz.And(has1, seq1.NextSequence == n+1), "C14 CreateClass advances the credit type's class sequence by exactly one")
				var c api.Class
				made := zz.OrmLookup1(zzinv.TClass, "Id", &c, base.FormatClassID(req.CreditTypeAbbrev, n))
				zz.Assert(zz.And(made, zz.And(zz.StrEq(c.CreditTypeAbbrev, req.CreditTypeAbbrev), zz.BytesEq(c.Admin, s.Signer))), "C14 CreateClass stores the class under the id formatted from the credit type and the next sequence number")
				// C18: the fee (a stored fee of zero requires and charges nothing)
				if fee.Fee != nil {
					feeInt, _ := sdk.NewIntFromString(fee.Fee.Amount)
					feeAmt := zz.QOf(feeInt)
					positive := zz.QLt(zz.QInt(0), feeAmt)
					zz.Assert(zz.QEq(zz.QSub(zz.BankBal0(s.Signer, fee.Fee.Denom), zz.BankBal1(s.Signer, fee.Fee.Denom)), feeAmt), "C18 a successful CreateClass debits the creator exactly the stored class fee")
					zz.Assert(zz.QEq(zz.QSub(zz.BankSupply0(fee.Fee.Denom), zz.BankSupply1(fee.Fee.Denom)), feeAmt), "C18 a successful CreateClass burns exactly the stored class fee")
					mod := zz.ModuleAddr(ecocredit.ModuleName)
					zz.Assert(zz.QEq(zz.BankBal0(mod, fee.Fee.Denom), zz.BankBal1(mod, fee.Fee.Denom)), "C18 the ecocredit module account keeps nothing of the class fee")
					same := false
					if req.Fee != nil {
						same = zz.StrEq(req.Fee.Denom, fee.Fee.Denom)
						zz.Assert(zz.Implies(positive, zz.QLe(feeAmt, zz.QOf(req.Fee.Amount))), "C18 CreateClass succeeds only if the offer covers the fee")
					}
					zz.Assert(zz.Implies(positive, zz.And(req.Fee != nil, same)), "C18 CreateClass succeeds only with an offer in the fee denom")
					zz.Assert(zz.Implies(zz.Not(positive), zz.BankCalls() == 0), "C18 with a zero class fee, CreateClass charges nothing")
				} else {
					zz.Assert(zz.BankCalls() == 0, "C18 with no class fee set, CreateClass charges nothing")
				}
			}
		})
}

func VerifHarness_Step_CreateProject() {
	req := &types.MsgCreateProject{}
	zzvRunStep(req, func(k Keeper, ctx context.Context) error { _, err := k.CreateProject(ctx, req); return err }, nil,
		func(s *zzvStepCtx) {
			if s.Err == nil {
				var c api.Class
				found := zz.OrmLookup0(zzinv.TClass, "Id", &c, req.ClassId)
				zz.Assert(zz.And(found, zz.OrmExists0(zzinv.TClassIssuer, c.Key, s.Signer)), "C08 CreateProject succeeds only for an issuer of the class")
				// C14: consecutive numbering per class
				var seq0, seq1 api.ProjectSequence
				has0 := zz.OrmRow0("regen.ecocredit.v1.ProjectSequence", &seq0, c.Key)
				has1 := zz.OrmRow1("regen.ecocredit.v1.ProjectSequence", &seq1, c.Key)
				n := uint64(1)
				if has0 {
					n = seq0.NextSequence
				}
				zz.Assert(zz.And(has1, seq1.NextSequence == n+1), "C14 CreateProject advances the class's project sequence by exactly one")
				var p api.Project
				made := zz.OrmLookup1(zzinv.TProject, "Id", &p, base.FormatProjectID(c.Id, n))
				zz.Assert(zz.And(made, p.ClassKey == c.Key), "C14 CreateProject stores the project under the id formatted from the class id and the next sequence number")
			}
		})
}

func VerifHarness_Step_UpdateClassAdmin() {
	req := &types.MsgUpdateClassAdmin{}
	zzvRunStep(req, func(k Keeper, ctx context.Context) error { _, err := k.UpdateClassAdmin(ctx, req); return err }, nil,
		func(s *zzvStepCtx) {
			if s.Err == nil {
				var c api.Class
				found := zz.OrmLookup0(zzinv.TClass, "Id", &c, req.ClassId)
				zz.Assert(zz.And(found, zz.BytesEq(c.Admin, s.Signer)), "C08 UpdateClassAdmin succeeds only for the admin of the named class")
				zz.Assert(zz.AllWritten2(zzinv.TClass, func(pre *api.Class, pe bool, post *api.Class, qe bool) bool {
					return zz.And(pe, pre.Key == c.Key)
				}), "C08 UpdateClassAdmin writes no class other than the one it names")
				zz.Assert(zz.OrmWrites(zzinv.TProject)+zz.OrmWrites(zzinv.TBatch)+zz.OrmWrites(zzinv.TBatchBalance)+zz.OrmWrites(zzinv.TBatchSupply) == 0, "C08 UpdateClassAdmin changes no project, batch, balance or supply")
			}
		})
}

func VerifHarness_Step_UpdateClassIssuers() {
	req := &types.MsgUpdateClassIssuers{}
	zzvRunStep(req, func(k Keeper, ctx context.Context) error { _, err := k.UpdateClassIssuers(ctx, req); return err }, nil,
		func(s *zzvStepCtx) {
			if s.Err == nil {
				var c api.Class
				found := zz.OrmLookup0(zzinv.TClass, "Id", &c, req.ClassId)
				zz.Assert(zz.And(found, zz.BytesEq(c.Admin, s.Signer)), "C08 UpdateClassIssuers succeeds only for the admin of the named class")
				zz.Assert(zz.AllWritten2(zzinv.TClass, func(pre *api.Class, pe bool, post *api.Class, qe bool) bool {
					return zz.And(pe, pre.Key == c.Key)
				}), "C08 UpdateClassIssuers writes no class other than the one it names")
				zz.Assert(zz.OrmWrites(zzinv.TProject)+zz.OrmWrites(zzinv.TBatch)+zz.OrmWrites(zzinv.TBatchBalance)+zz.OrmWrites(zzinv.TBatchSupply) == 0, "C08 UpdateClassIssuers changes no project, batch, balance or supply")
			}
		})
}

func VerifHarness_Step_UpdateClassMetadata() {
	req := &types.MsgUpdateClassMetadata{}
	zzvRunStep(req, func(k Keeper, ctx context.Context) error { _, err := k.UpdateClassMetadata(ctx, req); return err }, nil,
		func(s *zzvStepCtx) {
			if s.Err == nil {
				var c api.Class
				found := zz.OrmLookup0(zzinv.TClass, "Id", &c, req.ClassId)
				zz.Assert(zz.And(found, zz.BytesEq(c.Admin, s.Signer)), "C08 UpdateClassMetadata succeeds only for the admin of the named class")
				zz.Assert(zz.AllWritten2(zzinv.TClass, func(pre *api.Class, pe bool, post *api.Class, qe bool) bool {
					return zz.And(pe, pre.Key == c.Key)
				}), "C08 UpdateClassMetadata writes no class other than the one it names")
				zz.Assert(zz.OrmWrites(zzinv.TProject)+zz.OrmWrites(zzinv.TBatch)+zz.OrmWrites(zzinv.TBatchBalance)+zz.OrmWrites(zzinv.TBatchSupply) == 0, "C08 UpdateClassMetadata changes no project, batch, balance or supply")
			}
		})
}

func VerifHarness_Step_UpdateProjectAdmin() {
	req := &types.MsgUpdateProjectAdmin{}
	zzvRunStep(req, func(k Keeper, ctx context.Context) error { _, err := k.UpdateProjectAdmin(ctx, req); return err }, nil,
		func(s *zzvStepCtx) {
			if s.Err == nil {
				var p api.Project
				found := zz.OrmLookup0(zzinv.TProject, "Id", &p, req.ProjectId)
				zz.Assert(zz.And(found, zz.BytesEq(p.Admin, s.Signer)), "C08 UpdateProjectAdmin succeeds only for the admin of the named project")
				zz.Assert(zz.AllWritten2(zzinv.TProject, func(pre *api.Project, pe bool, post *api.Project, qe bool) bool {
					return zz.And(pe, pre.Key == p.Key)
				}), "C08 UpdateProjectAdmin writes no project other than the one it names")
				zz.Assert(zz.OrmWrites(zzinv.TClass)+zz.OrmWrites(zzinv.TBatch)+zz.OrmWrites(zzinv.TBatchBalance)+zz.OrmWrites(zzinv.TBatchSupply) == 0, "C08 UpdateProjectAdmin changes no class, batch, balance or supply")
			}
		})
}

func VerifHarness_Step_UpdateProjectMetadata() {
	req := &types.MsgUpdateProjectMetadata{}
	zzvRunStep(req, func(k Keeper, ctx context.Context) error { _, err := k.UpdateProjectMetadata(ctx, req); return err }, nil,
		func(s *zzvStepCtx) {
			if s.Err == nil {
				var p api.Project
				found := zz.OrmLookup0(zzinv.TProject, "Id", &p, req.ProjectId)
				zz.Assert(zz.And(found, zz.BytesEq(p.Admin, s.Signer)), "C08 UpdateProjectMetadata succeeds only for the admin of the named project")
				zz.Assert(zz.AllWritten2(zzinv.TProject, func(pre *api.Project, pe bool, post *api.Project, qe bool) bool {
					return zz.And(pe, pre.Key == p.Key)
				}), "C08 UpdateProjectMetadata writes no project other than the one it names")
				zz.Assert(zz.OrmWrites(zzinv.TClass)+zz.OrmWrites(zzinv.TBatch)+zz.OrmWrites(zzinv.TBatchBalance)+zz.OrmWrites(zzinv.TBatchSupply) == 0, "C08 UpdateProjectMetadata changes no class, batch, balance or supply")
			}
		})
}

func VerifHarness_Step_UpdateBatchMetadata() {
	req := &types.MsgUpdateBatchMetadata{}
	zzvRunStep(req, func(k Keeper, ctx context.Context) error { _, err := k.UpdateBatchMetadata(ctx, req); return err }, nil,
		func(s *zzvStepCtx) {
			if s.Err == nil {
				var bt api.Batch
				found := zz.OrmLookup0(zzinv.TBatch, "Denom", &bt, req.BatchDenom)
				zz.Assert(zz.And(found, zz.And(bt.Open, zz.BytesEq(bt.Issuer, s.Signer))), "C08 UpdateBatchMetadata succeeds only for the batch issuer on an open batch")
				zz.Assert(zz.AllWritten2(zzinv.TBatch, func(pre *api.Batch, pe bool, post *api.Batch, qe bool) bool {
					return zz.And(pe, pre.Key == bt.Key)
				}), "C08 UpdateBatchMetadata writes no batch other than the one it names")
			}
		})
}

// ---- governance

func VerifHarness_Step_AddCreditType() {
	req := &types.MsgAddCreditType{}
	zzvRunStep(req, func(k Keeper, ctx context.Context) error { _, err := k.AddCreditType(ctx, req); return err }, nil,
		func(s *zzvStepCtx) {
			if s.Err == nil {
				zz.Assert(zz.BytesEq(s.Signer, s.Authority), "C08 AddCreditType succeeds only for the governance authority")
			}
		})
}

func VerifHarness_Step_SetClassCreatorAllowlist() {
	req := &types.MsgSetClassCreatorAllowlist{}
	zzvRunStep(req, func(k Keeper, ctx context.Context) error { _, err := k.SetClassCreatorAllowlist(ctx, req); return err }, nil,
		func(s *zzvStepCtx) {
			if s.Err == nil {
				zz.Assert(zz.BytesEq(s.Signer, s.Authority), "C08 SetClassCreatorAllowlist succeeds only for the governance authority")
			}
		})
}

func VerifHarness_Step_AddClassCreator() {
	req := &types.MsgAddClassCreator{}
	zzvRunStep(req, func(k Keeper, ctx context.Context) error { _, err := k.AddClassCreator(ctx, req); return err }, nil,
		func(s *zzvStepCtx) {
			if s.Err == nil {
				zz.Assert(zz.BytesEq(s.Signer, s.Authority), "C08 AddClassCreator succeeds only for the governance authority")
			}
		})
}

func VerifHarness_Step_RemoveClassCreator() {
	req := &types.MsgRemoveClassCreator{}
	zzvRunStep(req, func(k Keeper, ctx context.Context) error { _, err := k.RemoveClassCreator(ctx, req); return err }, nil,
		func(s *zzvStepCtx) {
			if s.Err == nil {
				zz.Assert(zz.BytesEq(s.Signer, s.Authority), "C08 RemoveClassCreator succeeds only for the governance authority")
			}
		})
}

func VerifHarness_Step_UpdateClassFee() {
	req := &types.MsgUpdateClassFee{}
	zzvRunStep(req, func(k Keeper, ctx context.Context) error { _, err := k.UpdateClassFee(ctx, req); return err }, nil,
		func(s *zzvStepCtx) {
			if s.Err == nil {
				zz.Assert(zz.BytesEq(s.Signer, s.Authority), "C08 UpdateClassFee succeeds only for the governance authority")
			}
		})
}

func VerifHarness_Step_AddAllowedBridgeChain() {
	req := &types.MsgAddAllowedBridgeChain{}
	zzvRunStep(req, func(k Keeper, ctx context.Context) error { _, err := k.AddAllowedBridgeChain(ctx, req); return err }, nil,
		func(s *zzvStepCtx) {
			if s.Err == nil {
				zz.Assert(zz.BytesEq(s.Signer, s.Authority), "C08 AddAllowedBridgeChain succeeds only for the governance authority")
			}
		})
}

func VerifHarness_Step_RemoveAllowedBridgeChain() {
	req := &types.MsgRemoveAllowedBridgeChain{}
	zzvRunStep(req, func(k Keeper, ctx context.Context) error { _, err := k.RemoveAllowedBridgeChain(ctx, req); return err }, nil,
		func(s *zzvStepCtx) {
			if s.Err == nil {
				zz.Assert(zz.BytesEq(s.Signer, s.Authority), "C08 RemoveAllowedBridgeChain succeeds only for the governance authority")
			}
		})
}

func VerifHarness_Step_BurnRegen() {
	req := &types.MsgBurnRegen{}
	zzvRunStep(req, func(k Keeper, ctx context.Context) error { _, err := k.BurnRegen(ctx, req); return err }, nil,
		func(s *zzvStepCtx) {
			// a basket token denom starts with "eco." (ValidateBasketDenom), so it is not uregen
			zz.Assume(zz.Not(zz.StrEq(zzinv.BasketDenomOf(s.Sk.Basket), "uregen")))
		})
}
