//go:build verif

package keeper

import (
	"context"

	sdk "github.com/cosmos/cosmos-sdk/types"

	basketapi "github.com/regen-network/regen-ledger/api/v2/regen/ecocredit/basket/v1"
	marketapi "github.com/regen-network/regen-ledger/api/v2/regen/ecocredit/marketplace/v1"
	api "github.com/regen-network/regen-ledger/api/v2/regen/ecocredit/v1"
	"github.com/regen-network/regen-ledger/x/ecocredit/v3"
	types "github.com/regen-network/regen-ledger/x/ecocredit/v3/base/types/v1"
	"github.com/regen-network/regen-ledger/x/ecocredit/v3/zzinv"
	zz "github.com/regen-network/regen-ledger/x/ecocredit/v3/zzverif"
)

// symKeeper builds the real keeper over the model stores with the real constructor.
func symKeeper() (Keeper, []byte) {
	ss := zz.OrmStore("ecocredit").(api.StateStore)
	bs := zz.OrmStore("basket").(basketapi.StateStore)
	ms := zz.OrmStore("marketplace").(marketapi.StateStore)
	bk := zz.BankKeeper().(ecocredit.BankKeeper)
	authority := zz.NondetBytesAtom("authority")
	return NewKeeper(ss, bk, zz.ModuleAddr(ecocredit.ModuleName), bs, ms, sdk.AccAddress(authority)), authority
}

type stepCtx = zzinv.Step

func runStep(req sdk.Msg, call func(k Keeper, ctx context.Context) error, issued func(b uint64) zz.Q, hook func(s *stepCtx)) {
	zzinv.Install()
	k, authority := symKeeper()
	zzinv.RunStep(authority, req, func(ctx context.Context) error { return call(k, ctx) }, issued, hook)
}

func sumIssuance(list []*types.BatchIssuance) zz.Q {
	t := zz.QInt(0)
	for _, i := range list {
		t = zz.QAdd(t, zz.QAdd(zz.QParse(i.TradableAmount), zz.QParse(i.RetiredAmount)))
	}
	return t
}

// ---- credit movement

func VerifHarness_Step_Send() {
	req := &types.MsgSend{}
	runStep(req, func(k Keeper, ctx context.Context) error { _, err := k.Send(ctx, req); return err }, nil, nil)
}

func VerifHarness_Step_Retire() {
	req := &types.MsgRetire{}
	runStep(req, func(k Keeper, ctx context.Context) error { _, err := k.Retire(ctx, req); return err }, nil, nil)
}

func VerifHarness_Step_Cancel() {
	req := &types.MsgCancel{}
	runStep(req, func(k Keeper, ctx context.Context) error { _, err := k.Cancel(ctx, req); return err }, nil, nil)
}

func VerifHarness_Step_Bridge() {
	req := &types.MsgBridge{}
	runStep(req, func(k Keeper, ctx context.Context) error { _, err := k.Bridge(ctx, req); return err }, nil, nil)
}

// ---- issuance

func VerifHarness_Step_CreateBatch() {
	req := &types.MsgCreateBatch{}
	runStep(req, func(k Keeper, ctx context.Context) error { _, err := k.CreateBatch(ctx, req); return err },
		func(b uint64) zz.Q {
			// the batch created by this message is the one that exists now and did not before
			created := zz.And(zz.OrmExists1(zzinv.TBatch, b), zz.Not(zz.OrmExists0(zzinv.TBatch, b)))
			return zz.QIf(created, sumIssuance(req.Issuance), zz.QInt(0))
		}, nil)
}

func VerifHarness_Step_MintBatchCredits() {
	req := &types.MsgMintBatchCredits{}
	runStep(req, func(k Keeper, ctx context.Context) error { _, err := k.MintBatchCredits(ctx, req); return err },
		func(b uint64) zz.Q {
			var bt api.Batch
			found := zz.OrmLookup0(zzinv.TBatch, "Denom", &bt, req.BatchDenom)
			return zz.QIf(zz.And(found, bt.Key == b), sumIssuance(req.Issuance), zz.QInt(0))
		}, func(s *stepCtx) {
			if s.Err == nil {
				var bt api.Batch
				found := zz.OrmLookup0(zzinv.TBatch, "Denom", &bt, req.BatchDenom)
				zz.Assert(zz.And(found, zz.And(bt.Open, zz.BytesEq(bt.Issuer, s.Signer))), "C08 mint succeeds only for the batch issuer on an open batch")
			}
		})
}

func VerifHarness_Step_BridgeReceive() {
	req := &types.MsgBridgeReceive{}
	runStep(req, func(k Keeper, ctx context.Context) error { _, err := k.BridgeReceive(ctx, req); return err },
		func(b uint64) zz.Q {
			// credits land in the batch bound to the contract, or else in the batch created now
			var c api.Class
			zz.OrmLookup0(zzinv.TClass, "Id", &c, req.ClassId)
			var bc api.BatchContract
			bound := zz.OrmLookup0(zzinv.TBatchContract, "ClassKeyContract", &bc, c.Key, req.OriginTx.Contract)
			created := zz.And(zz.OrmExists1(zzinv.TBatch, b), zz.Not(zz.OrmExists0(zzinv.TBatch, b)))
			target := zz.BIf(bound, bc.BatchKey == b, created)
			return zz.QIf(target, zz.QParse(req.Batch.Amount), zz.QInt(0))
		}, nil)
}

func VerifHarness_Step_SealBatch() {
	req := &types.MsgSealBatch{}
	runStep(req, func(k Keeper, ctx context.Context) error { _, err := k.SealBatch(ctx, req); return err }, nil,
		func(s *stepCtx) {
			if s.Err == nil {
				var bt api.Batch
				found := zz.OrmLookup0(zzinv.TBatch, "Denom", &bt, req.BatchDenom)
				zz.Assert(zz.And(found, zz.BytesEq(bt.Issuer, s.Signer)), "C08 seal succeeds only for the batch issuer")
			}
		})
}

// ---- entity creation and administration

func VerifHarness_Step_CreateClass() {
	req := &types.MsgCreateClass{}
	runStep(req, func(k Keeper, ctx context.Context) error { _, err := k.CreateClass(ctx, req); return err }, nil, nil)
}

func VerifHarness_Step_CreateProject() {
	req := &types.MsgCreateProject{}
	runStep(req, func(k Keeper, ctx context.Context) error { _, err := k.CreateProject(ctx, req); return err }, nil, nil)
}

func VerifHarness_Step_UpdateClassAdmin() {
	req := &types.MsgUpdateClassAdmin{}
	runStep(req, func(k Keeper, ctx context.Context) error { _, err := k.UpdateClassAdmin(ctx, req); return err }, nil, nil)
}

func VerifHarness_Step_UpdateClassIssuers() {
	req := &types.MsgUpdateClassIssuers{}
	runStep(req, func(k Keeper, ctx context.Context) error { _, err := k.UpdateClassIssuers(ctx, req); return err }, nil, nil)
}

func VerifHarness_Step_UpdateClassMetadata() {
	req := &types.MsgUpdateClassMetadata{}
	runStep(req, func(k Keeper, ctx context.Context) error { _, err := k.UpdateClassMetadata(ctx, req); return err }, nil, nil)
}

func VerifHarness_Step_UpdateProjectAdmin() {
	req := &types.MsgUpdateProjectAdmin{}
	runStep(req, func(k Keeper, ctx context.Context) error { _, err := k.UpdateProjectAdmin(ctx, req); return err }, nil, nil)
}

func VerifHarness_Step_UpdateProjectMetadata() {
	req := &types.MsgUpdateProjectMetadata{}
	runStep(req, func(k Keeper, ctx context.Context) error { _, err := k.UpdateProjectMetadata(ctx, req); return err }, nil, nil)
}

func VerifHarness_Step_UpdateBatchMetadata() {
	req := &types.MsgUpdateBatchMetadata{}
	runStep(req, func(k Keeper, ctx context.Context) error { _, err := k.UpdateBatchMetadata(ctx, req); return err }, nil, nil)
}

// ---- governance

func VerifHarness_Step_AddCreditType() {
	req := &types.MsgAddCreditType{}
	runStep(req, func(k Keeper, ctx context.Context) error { _, err := k.AddCreditType(ctx, req); return err }, nil, nil)
}

func VerifHarness_Step_SetClassCreatorAllowlist() {
	req := &types.MsgSetClassCreatorAllowlist{}
	runStep(req, func(k Keeper, ctx context.Context) error { _, err := k.SetClassCreatorAllowlist(ctx, req); return err }, nil, nil)
}

func VerifHarness_Step_AddClassCreator() {
	req := &types.MsgAddClassCreator{}
	runStep(req, func(k Keeper, ctx context.Context) error { _, err := k.AddClassCreator(ctx, req); return err }, nil, nil)
}

func VerifHarness_Step_RemoveClassCreator() {
	req := &types.MsgRemoveClassCreator{}
	runStep(req, func(k Keeper, ctx context.Context) error { _, err := k.RemoveClassCreator(ctx, req); return err }, nil, nil)
}

func VerifHarness_Step_UpdateClassFee() {
	req := &types.MsgUpdateClassFee{}
	runStep(req, func(k Keeper, ctx context.Context) error { _, err := k.UpdateClassFee(ctx, req); return err }, nil, nil)
}

func VerifHarness_Step_AddAllowedBridgeChain() {
	req := &types.MsgAddAllowedBridgeChain{}
	runStep(req, func(k Keeper, ctx context.Context) error { _, err := k.AddAllowedBridgeChain(ctx, req); return err }, nil, nil)
}

func VerifHarness_Step_RemoveAllowedBridgeChain() {
	req := &types.MsgRemoveAllowedBridgeChain{}
	runStep(req, func(k Keeper, ctx context.Context) error { _, err := k.RemoveAllowedBridgeChain(ctx, req); return err }, nil, nil)
}

func VerifHarness_Step_BurnRegen() {
	req := &types.MsgBurnRegen{}
	runStep(req, func(k Keeper, ctx context.Context) error { _, err := k.BurnRegen(ctx, req); return err }, nil, nil)
}
