//go:build verif

package base

import (
	"time"

	zz "github.com/regen-network/regen-ledger/x/ecocredit/v3/zzverif"
)

// seqNo is an arbitrary sequence number below 10^seq_digits (every digit count is a path;
// the thorough tier covers the whole uint64 range).
func zzvSeqNo(label string) uint64 {
	d := zz.Bound("seq_digits", 7)
	n := zz.NondetU64(label)
	if d < 20 {
		lim := uint64(1)
		for i := 0; i < d; i++ {
			lim *= 10
		}
		zz.Assume(n < lim)
	}
	return n
}

func zzvValidAbbrev(label string) string {
	n := 1 + zz.NondetChoice(label+".len", 3)
	s := zz.NondetString(label, n)
	zz.Assume(ValidateCreditTypeAbbreviation(s) == nil)
	return s
}

// Class ids: well-formed, accepted by the validator, and the abbreviation is recovered.
func VerifHarness_C14_ClassID() {
	abbrev := zzvValidAbbrev("abbrev")
	seq := zzvSeqNo("seq")
	id := FormatClassID(abbrev, seq)
	zz.Assert(ValidateClassID(id) == nil, "C14 a formatted class id is accepted by ValidateClassID")
	zz.Assert(zz.StrEq(GetCreditTypeAbbrevFromClassID(id), abbrev), "C14 the credit type abbreviation is recovered from a class id")
	zz.Reach("class id")
}

// Project ids: accepted by the validator, class id recovered.
func VerifHarness_C14_ProjectID() {
	classID := FormatClassID(zzvValidAbbrev("abbrev"), zzvSeqNo("classSeq"))
	seq := zzvSeqNo("projectSeq")
	id := FormatProjectID(classID, seq)
	zz.Assert(ValidateProjectID(id) == nil, "C14 a formatted project id is accepted by ValidateProjectID")
	zz.Assert(zz.StrEq(GetClassIDFromProjectID(id), classID), "C14 the class id is recovered from a project id")
	zz.Reach("project id")
}

// Batch denoms: accepted by the validator, class and project ids recovered.
func VerifHarness_C14_BatchDenom() {
	classID := FormatClassID(zzvValidAbbrev("abbrev"), zzvSeqNo("classSeq"))
	projectID := FormatProjectID(classID, zzvSeqNo("projectSeq"))
	var start, end time.Time
	zz.NondetInto("start", &start)
	zz.NondetInto("end", &end)
	denom, err := FormatBatchDenom(projectID, zzvSeqNo("batchSeq"), &start, &end)
	zz.Assert(err == nil, "C14 FormatBatchDenom succeeds")
	zz.Assert(ValidateBatchDenom(denom) == nil, "C14 a formatted batch denom is accepted by ValidateBatchDenom")
	zz.Assert(zz.StrEq(GetClassIDFromBatchDenom(denom), classID), "C14 the class id is recovered from a batch denom")
	zz.Assert(zz.StrEq(GetProjectIDFromBatchDenom(denom), projectID), "C14 the project id is recovered from a batch denom")
	zz.Reach("batch denom")
}

// Formatters are injective: different (scope, sequence) pairs give different ids.
func VerifHarness_C14_InjectiveClassID() {
	a1, a2 := zzvValidAbbrev("a1"), zzvValidAbbrev("a2")
	n1, n2 := zzvSeqNo("n1"), zzvSeqNo("n2")
	zz.Assert(zz.Implies(zz.StrEq(FormatClassID(a1, n1), FormatClassID(a2, n2)), zz.And(zz.StrEq(a1, a2), n1 == n2)),
		"C14 class ids are unique per (credit type, sequence number)")
	zz.Reach("injective class id")
}

func VerifHarness_C14_InjectiveProjectID() {
	// two validated class ids of arbitrary content
	c1 := FormatClassID(zzvValidAbbrev("a1"), zzvSeqNo("c1"))
	c2 := FormatClassID(zzvValidAbbrev("a2"), zzvSeqNo("c2"))
	n1, n2 := zzvSeqNo("n1"), zzvSeqNo("n2")
	zz.Assert(zz.Implies(zz.StrEq(FormatProjectID(c1, n1), FormatProjectID(c2, n2)), zz.And(zz.StrEq(c1, c2), n1 == n2)),
		"C14 project ids are unique per (class, sequence number)")
	zz.Reach("injective project id")
}

// For every string the batch-denom validator accepts, the class id the handlers parse out
// of it is a valid class id, and "class id + '-'" is a prefix of the denom exactly for that
// class id (C01-... is not a prefix match for class C011).
func VerifHarness_C14_ParsersOnValidDenom() {
	lo, hi := zz.Bound("denom_lo", 27), zz.Bound("denom_hi", 30)
	n := lo + zz.NondetChoice("denomlen", hi-lo+1)
	d := zz.NondetString("denom", n)
	zz.Assume(ValidateBatchDenom(d) == nil)
	c := GetClassIDFromBatchDenom(d)
	zz.Assert(ValidateClassID(c) == nil, "C14 the class id parsed from a valid batch denom is a valid class id")
	p := GetProjectIDFromBatchDenom(d)
	zz.Assert(ValidateProjectID(p) == nil, "C14 the project id parsed from a valid batch denom is a valid project id")
	zz.Assert(zz.StrEq(GetClassIDFromProjectID(p), c), "C14 project id and batch denom agree on the class id")
	// prefix freedom against an arbitrary valid class id
	m := 3 + zz.NondetChoice("classlen", 4)
	other := zz.NondetString("class", m)
	zz.Assume(ValidateClassID(other) == nil)
	isPrefix := len(d) > len(other) && d[:len(other)+1] == other+"-"
	zz.Assert(isPrefix == (c == other), "C14 'class id + -' is a prefix of a denom exactly for the denom's own class id")
	// the same for project ids (C01-100- is not a prefix match for project C01-1000)
	pm := 6 + zz.NondetChoice("projectlen", 5)
	otherP := zz.NondetString("project", pm)
	zz.Assume(ValidateProjectID(otherP) == nil)
	isPrefixP := len(d) > len(otherP) && d[:len(otherP)+1] == otherP+"-"
	zz.Assert(isPrefixP == (p == otherP), "C14 'project id + -' is a prefix of a denom exactly for the denom's own project id")
	zz.Reach("parsers on valid denom")
}
