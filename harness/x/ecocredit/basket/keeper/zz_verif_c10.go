//go:build verif

package keeper

import (
	"context"

	types "github.com/regen-network/regen-ledger/x/ecocredit/v3/basket/types/v1"
	"github.com/regen-network/regen-ledger/x/ecocredit/v3/zzinv"
	zz "github.com/regen-network/regen-ledger/x/ecocredit/v3/zzverif"
)

// C10: determinism of every message handler by self-composition (zzinv.RunDet).

func VerifHarness_C10_BasketCreate() {
	zzinv.Install()
	k, _ := zzvSymKeeper()
	req := &types.MsgCreate{}
	zzinv.RunDet(&k, req, func(ctx context.Context) (interface{}, error) { return k.Create(ctx, req) })
}

func VerifHarness_C10_BasketPut() {
	zzinv.Install()
	k, _ := zzvSymKeeper()
	req := &types.MsgPut{}
	zzinv.RunDet(&k, req, func(ctx context.Context) (interface{}, error) { return k.Put(ctx, req) })
}

func VerifHarness_C10_BasketUpdateBasketFee() {
	zzinv.Install()
	k, _ := zzvSymKeeper()
	req := &types.MsgUpdateBasketFee{}
	zzinv.RunDet(&k, req, func(ctx context.Context) (interface{}, error) { return k.UpdateBasketFee(ctx, req) })
}

func VerifHarness_C10_BasketUpdateCurator() {
	zzinv.Install()
	k, _ := zzvSymKeeper()
	req := &types.MsgUpdateCurator{}
	zzinv.RunDet(&k, req, func(ctx context.Context) (interface{}, error) { return k.UpdateCurator(ctx, req) })
}

func VerifHarness_C10_BasketUpdateDateCriteria() {
	zzinv.Install()
	k, _ := zzvSymKeeper()
	req := &types.MsgUpdateDateCriteria{}
	zzinv.RunDet(&k, req, func(ctx context.Context) (interface{}, error) { return k.UpdateDateCriteria(ctx, req) })
}

func VerifHarness_C10_BasketTake() {
	zzinv.Install()
	k, _ := zzvSymKeeper()
	req := &types.MsgTake{}
	zz.AssumeLoopBound("keeper.Keeper).Take", zz.Bound("iter", 1)+1)
	zzinv.RunDet(&k, req, func(ctx context.Context) (interface{}, error) { return k.Take(ctx, req) })
}
