//go:build verif

package keeper

import (
	sdk "github.com/cosmos/cosmos-sdk/types"

	api "github.com/regen-network/regen-ledger/api/v2/regen/ecocredit/basket/v1"
	types "github.com/regen-network/regen-ledger/x/ecocredit/v3/basket/types/v1"
	"github.com/regen-network/regen-ledger/x/ecocredit/v3/zzinv"
	zz "github.com/regen-network/regen-ledger/x/ecocredit/v3/zzverif"
)

// C17 (basket): BasketBalances returns exactly the stored balances of the basket; Baskets
// returns exactly the stored baskets.

func VerifHarness_C17_BasketBalances() {
	zzinv.Install()
	k, _ := zzvSymKeeper()
	req := &types.QueryBasketBalancesRequest{}
	zz.NondetInto("req", req)
	req.Pagination = nil
	res, err := k.BasketBalances(zz.Context(), req)
	var b api.Basket
	found := zz.OrmLookup0(zzinv.TBasket, "BasketDenom", &b, req.BasketDenom)
	if err != nil {
		zz.Assert(!found, "C17 BasketBalances fails only for an unknown basket")
		zz.Reach("query fails")
		return
	}
	zz.Assert(found, "C17 BasketBalances succeeds only for a known basket")
	zz.Assert(len(res.Balances) == len(res.BalancesInfo), "C17 BasketBalances returns the two views with the same length")
	for i, info := range res.BalancesInfo {
		var row api.BasketBalance
		has := zz.OrmRow0(zzinv.TBasketBalance, &row, b.Id, info.BatchDenom)
		zz.Assert(has, "C17 BasketBalances returns only stored balances of the basket")
		zz.Assert(info.Balance == row.Balance, "C17 BasketBalances returns the stored balance")
		if i < len(res.Balances) {
			g := res.Balances[i]
			zz.Assert(zz.And(zz.And(g.BasketId == b.Id, g.BatchDenom == info.BatchDenom), g.Balance == row.Balance), "C17 BasketBalances returns the same rows in both views")
		}
		for j := 0; j < i; j++ {
			zz.Assert(res.BalancesInfo[j].BatchDenom != info.BatchDenom, "C17 BasketBalances returns no balance twice")
		}
	}
	d := zz.NondetAtom("sk.denom")
	var row api.BasketBalance
	if zz.OrmRow0(zzinv.TBasketBalance, &row, b.Id, d) {
		in := false
		for _, info := range res.BalancesInfo {
			in = zz.Or(in, info.BatchDenom == d)
		}
		zz.Assert(in, "C17 BasketBalances returns every stored balance of the basket")
	}
	zz.Reach("query succeeds")
}

func VerifHarness_C17_Baskets() {
	zzinv.Install()
	k, _ := zzvSymKeeper()
	req := &types.QueryBasketsRequest{}
	zz.NondetInto("req", req)
	req.Pagination = nil
	res, err := k.Baskets(zz.Context(), req)
	zz.Assert(err == nil, "C17 Baskets does not fail")
	if err != nil {
		return
	}
	for i, info := range res.BasketsInfo {
		var row api.Basket
		found := zz.OrmLookup0(zzinv.TBasket, "BasketDenom", &row, info.BasketDenom)
		zz.Assert(found, "C17 Baskets returns only stored baskets")
		zz.Assert(zz.And(zz.And(info.Name == row.Name, info.DisableAutoRetire == row.DisableAutoRetire), zz.And(info.CreditTypeAbbrev == row.CreditTypeAbbrev, info.Curator == sdk.AccAddress(row.Curator).String())), "C17 Baskets returns the stored fields of each basket")
		zz.Assert((info.DateCriteria == nil) == (row.DateCriteria == nil), "C17 Baskets returns date criteria exactly when they are stored")
		for j := 0; j < i; j++ {
			zz.Assert(res.BasketsInfo[j].BasketDenom != info.BasketDenom, "C17 Baskets returns no basket twice")
		}
	}
	id := zz.NondetU64("sk.basket")
	var row api.Basket
	if zz.OrmRow0(zzinv.TBasket, &row, id) {
		in := false
		for _, info := range res.BasketsInfo {
			in = zz.Or(in, info.BasketDenom == row.BasketDenom)
		}
		zz.Assert(in, "C17 Baskets returns every stored basket")
	}
	zz.Reach("query succeeds")
}
