//go:build verif

package keeper

import (
	"context"
	"time"

	sdk "github.com/cosmos/cosmos-sdk/types"

	api "github.com/regen-network/regen-ledger/api/v2/regen/ecocredit/basket/v1"
	baseapi "github.com/regen-network/regen-ledger/api/v2/regen/ecocredit/v1"
	"github.com/regen-network/regen-ledger/x/ecocredit/v3"
	"github.com/regen-network/regen-ledger/x/ecocredit/v3/base"
	"github.com/regen-network/regen-ledger/x/ecocredit/v3/basket"
	types "github.com/regen-network/regen-ledger/x/ecocredit/v3/basket/types/v1"
	"github.com/regen-network/regen-ledger/x/ecocredit/v3/zzinv"
	zz "github.com/regen-network/regen-ledger/x/ecocredit/v3/zzverif"
)

func zzvSymKeeper() (Keeper, []byte) {
	ss := zz.OrmStore("basket").(api.StateStore)
	cs := zz.OrmStore("ecocredit").(baseapi.StateStore)
	bk := zz.BankKeeper().(ecocredit.BankKeeper)
	authority := zz.NondetBytesAtom("authority")
	return NewKeeper(ss, cs, bk, zz.ModuleAddr(basket.BasketSubModuleName), sdk.AccAddress(authority)), authority
}

func zzvRunStep(req sdk.Msg, call func(k Keeper, ctx context.Context) error, hook func(s *zzinv.Step)) {
	zzinv.Install()
	k, authority := zzvSymKeeper()
	zzinv.RunStep(authority, req, func(ctx context.Context) error { return call(k, ctx) }, nil, hook)
}

func VerifHarness_Step_BasketCreate() {
	req := &types.MsgCreate{}
	zzvRunStep(req, func(k Keeper, ctx context.Context) error { _, err := k.Create(ctx, req); return err },
		func(s *zzinv.Step) {
			s.SkipC05 = true
			var fee api.BasketFee
			zz.OrmRow0("regen.ecocredit.basket.v1.BasketFee", &fee)
			denom := ""
			if fee.Fee != nil {
				denom = fee.Fee.Denom
			}
			zzinv.CheckC05FeeBurn(s.Sk.Basket, denom, fee.Fee != nil)
			if s.Err != nil && !s.Panicked && fee.Fee != nil {
				feeInt, _ := sdk.NewIntFromString(fee.Fee.Amount)
				offer, same := zz.QInt(0), false
				if len(req.Fee) > 0 {
					offer, same = zz.QOf(req.Fee[0].Amount), zz.StrEq(req.Fee[0].Denom, fee.Fee.Denom)
				}
				zzinv.CheckFeeNeverDisables("basket Create", s.Err, true, zz.QOf(feeInt), len(req.Fee) > 0, same, offer, zz.BankBal0(s.Signer, fee.Fee.Denom))
			}
			if s.Err == nil {
				if fee.Fee != nil {
					feeInt, _ := sdk.NewIntFromString(fee.Fee.Amount)
					feeAmt := zz.QOf(feeInt)
					zz.Assert(zz.QEq(zz.QSub(zz.BankBal0(s.Signer, fee.Fee.Denom), zz.BankBal1(s.Signer, fee.Fee.Denom)), feeAmt), "C18 a successful basket Create debits the curator exactly the stored basket fee")
					zz.Assert(zz.QEq(zz.QSub(zz.BankSupply0(fee.Fee.Denom), zz.BankSupply1(fee.Fee.Denom)), feeAmt), "C18 a successful basket Create burns exactly the stored basket fee")
					mod := zz.ModuleAddr(basket.BasketSubModuleName)
					zz.Assert(zz.QEq(zz.BankBal0(mod, fee.Fee.Denom), zz.BankBal1(mod, fee.Fee.Denom)), "C18 the basket module account keeps nothing of the basket fee")
					// a stored fee of zero requires and charges nothing
					positive := zz.QLt(zz.QInt(0), feeAmt)
					same := false
					if len(req.Fee) > 0 {
						same = zz.StrEq(req.Fee[0].Denom, fee.Fee.Denom)
						zz.Assert(zz.Implies(positive, zz.QLe(feeAmt, zz.QOf(req.Fee[0].Amount))), "C18 basket Create succeeds only if the offer covers the fee")
					}
					zz.Assert(zz.Implies(positive, zz.And(len(req.Fee) > 0, same)), "C18 basket Create succeeds only with an offer in the fee denom")
					zz.Assert(zz.Implies(zz.Not(positive), zz.BankCalls() == 1), "C18 with a zero basket fee, basket Create charges nothing (only denom metadata is set)")
				} else {
					zz.Assert(zz.BankCalls() == 1, "C18 with no basket fee set, basket Create charges nothing (only denom metadata is set)")
				}
				// the created basket
				zz.Assert(zz.AllWritten2(zzinv.TBasket, func(pre *api.Basket, pe bool, post *api.Basket, qe bool) bool {
					return zz.And(zz.Not(pe), zz.And(qe, zz.BytesEq(post.Curator, s.Signer)))
				}), "C08 basket Create only creates a basket curated by the signer")
			}
		})
}

func VerifHarness_Step_BasketPut() {
	req := &types.MsgPut{}
	zzvRunStep(req, func(k Keeper, ctx context.Context) error { _, err := k.Put(ctx, req); return err }, zzvPutHook(req))
}

// Put of exactly two credits (the same batch may be named twice; two batches of one class;
// ...), light obligation set: the quick-tier complement of Step_BasketPut at list=1.
func VerifHarness_Step_BasketPutTwo() {
	zzinv.Light = true
	req := &types.MsgPut{}
	zzvRunStep(req, func(k Keeper, ctx context.Context) error {
		zz.Assume(len(req.Credits) == 2)
		_, err := k.Put(ctx, req)
		return err
	}, zzvPutHook(req))
}

func zzvPutHook(req *types.MsgPut) func(s *zzinv.Step) {
	return func(s *zzinv.Step) {
		if s.Err == nil {
			var b api.Basket
			found := zz.OrmLookup0(zzinv.TBasket, "BasketDenom", &b, req.BasketDenom)
			zz.Assert(found, "C05 Put succeeds only into an existing basket")
			total := zz.QInt(0)
			for _, c := range req.Credits {
				total = zz.QAdd(total, zz.QParse(c.Amount))
				// C11 (only-if direction): class allowed, credit type matches
				var bt baseapi.Batch
				bf := zz.OrmLookup0(zzinv.TBatch, "Denom", &bt, c.BatchDenom)
				classID := base.GetClassIDFromBatchDenom(bt.Denom)
				var cl baseapi.Class
				cf := zz.OrmLookup0(zzinv.TClass, "Id", &cl, classID)
				zz.Assert(zz.And(bf, zz.OrmExists0(zzinv.TBasketClass, b.Id, classID)), "C11 Put succeeds only for credits whose class is on the basket's allowed list")
				zz.Assert(zz.And(cf, zz.StrEq(cl.CreditTypeAbbrev, b.CreditTypeAbbrev)), "C11 Put succeeds only for credits of the basket's credit type")
				// C11 (only-if direction): every credit's batch satisfies the date criteria
				if b.DateCriteria != nil && bt.StartDate != nil {
					start := bt.StartDate.AsTime()
					now := sdk.UnwrapSDKContext(zz.Context()).BlockTime()
					switch {
					case b.DateCriteria.MinStartDate != nil:
						zz.Assert(zz.Not(zz.TimeLt(start, b.DateCriteria.MinStartDate.AsTime())), "C11 Put succeeds only for batches starting at or after the basket's minimum start date")
					case b.DateCriteria.StartDateWindow != nil:
						w := b.DateCriteria.StartDateWindow
						// windows that time.Duration can represent (about 292 years); larger ones
						// saturate in AsDuration (observation F6) and are outside this obligation
						if zz.And(w.Seconds >= 0, w.Seconds < 9_000_000_000) {
							zz.Assert(zz.Not(zz.TimeLt(start, now.Add(-w.AsDuration()))), "C11 Put succeeds only for batches starting within the basket's start date window before block time")
						}
					case b.DateCriteria.YearsInThePast != 0:
						first := time.Date(now.Year()-int(b.DateCriteria.YearsInThePast), 1, 1, 0, 0, 0, 0, time.UTC)
						zz.Assert(zz.Not(zz.TimeLt(start, first)), "C11 Put succeeds only for batches starting in or after the year block time minus years_in_the_past")
					}
				}
			}
			minted := zz.QMul(zz.QPow10(zzinv.Precision), total)
			zz.Label("put.minted.expected", minted)
			zz.Label("put.owner.delta", zz.QSub(zz.BankBal1(s.Signer, b.BasketDenom), zz.BankBal0(s.Signer, b.BasketDenom)))
			zz.Label("put.supply.delta", zz.QSub(zz.BankSupply1(b.BasketDenom), zz.BankSupply0(b.BasketDenom)))
			zz.Assert(zz.QEq(zz.QSub(zz.BankBal1(s.Signer, b.BasketDenom), zz.BankBal0(s.Signer, b.BasketDenom)), minted), "C05 Put mints exactly amount x 10^precision basket tokens to the depositor")
			zz.Assert(zz.QEq(zz.QSub(zz.BankSupply1(b.BasketDenom), zz.BankSupply0(b.BasketDenom)), minted), "C05 Put increases the token supply by exactly amount x 10^precision")
		}
	}
}

func VerifHarness_Step_BasketTake() {
	// stated bound: one Take drains at most iter+1 basket balances
	zz.AssumeLoopBound("keeper.Keeper).Take", zz.Bound("iter", 1)+1)
	req := &types.MsgTake{}
	zzvRunStep(req, func(k Keeper, ctx context.Context) error { _, err := k.Take(ctx, req); return err }, zzvTakeHook(req))
}

// Take that spans two basket balances (the oldest is drained, a second one drained or
// reduced): run with iter=2 (a basket may hold two balances), light obligation set, and only
// the executions that wrote two basket balances or failed - the single-balance executions
// are those of Step_BasketTake.
func VerifHarness_Step_BasketTakeTwo() {
	zzinv.Light = true
	zz.AssumeLoopBound("keeper.Keeper).Take", 2)
	req := &types.MsgTake{}
	zzvRunStep(req, func(k Keeper, ctx context.Context) error {
		_, err := k.Take(ctx, req)
		zz.Assume(zz.Or(err != nil, zz.OrmWrites(zzinv.TBasketBalance) >= 2))
		return err
	}, zzvTakeHook(req))
}

func zzvTakeHook(req *types.MsgTake) func(s *zzinv.Step) {
	return func(s *zzinv.Step) {
		if s.Err == nil {
			var b api.Basket
			found := zz.OrmLookup0(zzinv.TBasket, "BasketDenom", &b, req.BasketDenom)
			zz.Assert(found, "C05 Take succeeds only from an existing basket")
			amt, _ := sdk.NewIntFromString(req.Amount)
			burned := zz.QOf(amt)
			zz.Assert(zz.QEq(zz.QSub(zz.BankBal0(s.Signer, b.BasketDenom), zz.BankBal1(s.Signer, b.BasketDenom)), burned), "C05 Take debits the owner exactly the amount taken")
			zz.Assert(zz.QEq(zz.QSub(zz.BankSupply0(b.BasketDenom), zz.BankSupply1(b.BasketDenom)), burned), "C05 Take burns exactly the amount taken")
			// credits released in total = amount / 10^precision, all to the owner
			released := zz.SumDelta(zzinv.TBatchBalance, func(r *baseapi.BatchBalance) zz.Q {
				return zz.QIf(zz.BytesEq(r.Address, s.Signer), zz.QAdd(zz.QParse(r.TradableAmount), zz.QParse(r.RetiredAmount)), zz.QInt(0))
			})
			zz.Assert(zz.QEq(zz.QMul(zz.QPow10(zzinv.Precision), released), burned), "C05 Take releases amount / 10^precision credits in total")
			// C11: auto-retire
			gotTradable := zz.SumDelta(zzinv.TBatchBalance, func(r *baseapi.BatchBalance) zz.Q {
				return zz.QIf(zz.BytesEq(r.Address, s.Signer), zz.QParse(r.TradableAmount), zz.QInt(0))
			})
			zz.Assert(zz.Implies(zz.Not(b.DisableAutoRetire), zz.QEq(gotTradable, zz.QInt(0))), "C11 credits taken from a basket with auto-retire enabled are never delivered tradable")
			// C11: oldest first: if a balance of the basket was reduced, every balance that sorts
			// before it (start date, then denom) is gone
			d := zz.NondetAtom("earlier-denom*")
			var r1 api.BasketBalance
			e1pre := zz.OrmRow0(zzinv.TBasketBalance, &r1, b.Id, d)
			e1post := zz.OrmExists1(zzinv.TBasketBalance, b.Id, d)
			zz.Assert(zz.AllWritten2(zzinv.TBasketBalance, func(pre *api.BasketBalance, pe bool, post *api.BasketBalance, qe bool) bool {
				reduced := zz.And(pe, zz.Or(zz.Not(qe), zz.QLt(zz.QParse(post.Balance), zz.QParse(pre.Balance))))
				earlier := zz.And(e1pre, zzinv.BalanceBefore(&r1, pre))
				return zz.Implies(zz.And(reduced, zz.And(earlier, pre.BasketId == b.Id)), zz.Not(e1post))
			}), "C11 Take drains the batch with the earliest start date completely before touching a later one")
		}
	}
}

func zzvGovOnly(name string) func(s *zzinv.Step) {
	return func(s *zzinv.Step) {
		if s.Err == nil {
			zz.Assert(zz.BytesEq(s.Signer, s.Authority), "C08 "+name+" succeeds only for the governance authority")
		}
	}
}

func VerifHarness_Step_BasketUpdateBasketFee() {
	req := &types.MsgUpdateBasketFee{}
	zzvRunStep(req, func(k Keeper, ctx context.Context) error { _, err := k.UpdateBasketFee(ctx, req); return err }, zzvGovOnly("UpdateBasketFee"))
}

func VerifHarness_Step_BasketUpdateCurator() {
	req := &types.MsgUpdateCurator{}
	zzvRunStep(req, func(k Keeper, ctx context.Context) error { _, err := k.UpdateCurator(ctx, req); return err },
		func(s *zzinv.Step) {
			if s.Err == nil {
				var b api.Basket
				found := zz.OrmLookup0(zzinv.TBasket, "BasketDenom", &b, req.Denom)
				zz.Assert(zz.And(found, zz.BytesEq(b.Curator, s.Signer)), "C08 UpdateCurator succeeds only for the basket's curator")
				zz.Assert(zz.AllWritten2(zzinv.TBasket, func(pre *api.Basket, pe bool, post *api.Basket, qe bool) bool {
					return zz.And(pe, pre.Id == b.Id)
				}), "C08 UpdateCurator writes no basket other than the one it names")
			}
		})
}

func VerifHarness_Step_BasketUpdateDateCriteria() {
	req := &types.MsgUpdateDateCriteria{}
	zzvRunStep(req, func(k Keeper, ctx context.Context) error { _, err := k.UpdateDateCriteria(ctx, req); return err }, zzvGovOnly("UpdateDateCriteria"))
}
