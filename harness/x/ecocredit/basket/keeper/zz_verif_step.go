//go:build verif

package keeper

import (
	"context"

	sdk "github.com/cosmos/cosmos-sdk/types"

	api "github.com/regen-network/regen-ledger/api/v2/regen/ecocredit/basket/v1"
	baseapi "github.com/regen-network/regen-ledger/api/v2/regen/ecocredit/v1"
	"github.com/regen-network/regen-ledger/x/ecocredit/v3"
	"github.com/regen-network/regen-ledger/x/ecocredit/v3/basket"
	types "github.com/regen-network/regen-ledger/x/ecocredit/v3/basket/types/v1"
	"github.com/regen-network/regen-ledger/x/ecocredit/v3/zzinv"
	zz "github.com/regen-network/regen-ledger/x/ecocredit/v3/zzverif"
)

func symKeeper() (Keeper, []byte) {
	ss := zz.OrmStore("basket").(api.StateStore)
	cs := zz.OrmStore("ecocredit").(baseapi.StateStore)
	bk := zz.BankKeeper().(ecocredit.BankKeeper)
	authority := zz.NondetBytesAtom("authority")
	return NewKeeper(ss, cs, bk, zz.ModuleAddr(basket.BasketSubModuleName), sdk.AccAddress(authority)), authority
}

func runStep(req sdk.Msg, call func(k Keeper, ctx context.Context) error, hook func(s *zzinv.Step)) {
	zzinv.Install()
	k, authority := symKeeper()
	zzinv.RunStep(authority, req, func(ctx context.Context) error { return call(k, ctx) }, nil, hook)
}

func VerifHarness_Step_BasketCreate() {
	req := &types.MsgCreate{}
	runStep(req, func(k Keeper, ctx context.Context) error { _, err := k.Create(ctx, req); return err }, nil)
}

func VerifHarness_Step_BasketPut() {
	req := &types.MsgPut{}
	runStep(req, func(k Keeper, ctx context.Context) error { _, err := k.Put(ctx, req); return err }, nil)
}

func VerifHarness_Step_BasketTake() {
	// stated bound: one Take drains at most iter+1 basket balances
	zz.AssumeLoopBound("keeper.Keeper).Take", zz.Bound("iter", 1)+1)
	req := &types.MsgTake{}
	runStep(req, func(k Keeper, ctx context.Context) error { _, err := k.Take(ctx, req); return err }, nil)
}

func VerifHarness_Step_BasketUpdateBasketFee() {
	req := &types.MsgUpdateBasketFee{}
	runStep(req, func(k Keeper, ctx context.Context) error { _, err := k.UpdateBasketFee(ctx, req); return err }, nil)
}

func VerifHarness_Step_BasketUpdateCurator() {
	req := &types.MsgUpdateCurator{}
	runStep(req, func(k Keeper, ctx context.Context) error { _, err := k.UpdateCurator(ctx, req); return err }, nil)
}

func VerifHarness_Step_BasketUpdateDateCriteria() {
	req := &types.MsgUpdateDateCriteria{}
	runStep(req, func(k Keeper, ctx context.Context) error { _, err := k.UpdateDateCriteria(ctx, req); return err }, nil)
}
