//go:build verif

package basket

import (
	"github.com/regen-network/regen-ledger/x/ecocredit/v3/base"
	zz "github.com/regen-network/regen-ledger/x/ecocredit/v3/zzverif"
)

// Lemma used by the handler-level runs: a basket denom formatted from a valid name, a valid
// credit type abbreviation and a supported exponent is accepted by ValidateBasketDenom and
// is a valid bank denom (so sdk.NewCoin never panics on it).
func VerifHarness_C14_BasketDenom() {
	n := 3 + zz.NondetChoice("namelen", 6)
	name := zz.NondetString("name", n)
	zz.Assume(ValidateBasketName(name) == nil)
	an := 1 + zz.NondetChoice("abbrevlen", 3)
	abbrev := zz.NondetString("abbrev", an)
	zz.Assume(base.ValidateCreditTypeAbbreviation(abbrev) == nil)
	exp := zz.NondetU32("exponent")
	denom, display, err := FormatBasketDenom(name, abbrev, exp)
	if err != nil {
		zz.Reach("unsupported exponent")
		return
	}
	zz.Assert(ValidateBasketDenom(denom) == nil, "C14 a formatted basket denom is accepted by ValidateBasketDenom")
	zz.Assert(zz.ValidSdkDenom(denom), "C14 a formatted basket denom is a valid bank denom")
	zz.Assert(zz.ValidSdkDenom(display), "C14 a formatted basket display denom is a valid bank denom")
	zz.Reach("basket denom")
}
