//go:build verif

package genesis

import (
	basketapi "github.com/regen-network/regen-ledger/api/v2/regen/ecocredit/basket/v1"
	api "github.com/regen-network/regen-ledger/api/v2/regen/ecocredit/v1"
	"github.com/regen-network/regen-ledger/x/ecocredit/v3/zzinv"
	zz "github.com/regen-network/regen-ledger/x/ecocredit/v3/zzverif"
)

// C09 (genesis validation): a state that satisfies the module invariant - every row passes
// its validator, references resolve, and for every batch tradable+retired supply equals the
// sum of all balances (tradable, retired, escrowed) plus the basket holdings of the batch -
// is accepted by the module's own ValidateGenesis. The in-memory database ValidateGenesis
// builds is the table model with arbitrary content of at most `iter` rows per table (the
// JSON document is "any document that imports"); the global sum invariant is stated over
// the enumerated rows.
func VerifHarness_C09_ValidateGenesis() {
	zzinv.Install()
	ss := zz.OrmStore("ecocredit").(api.StateStore)
	bs := zz.OrmStore("basket").(basketapi.StateStore)
	ctx := zz.Context()

	var batches []*api.Batch
	bit, _ := ss.BatchTable().List(ctx, api.BatchPrimaryKey{})
	for bit.Next() {
		v, _ := bit.Value()
		batches = append(batches, v)
	}
	var balances []*api.BatchBalance
	lit, _ := ss.BatchBalanceTable().List(ctx, api.BatchBalancePrimaryKey{})
	for lit.Next() {
		v, _ := lit.Value()
		balances = append(balances, v)
	}
	var baskets []*basketapi.BasketBalance
	kit, _ := bs.BasketBalanceTable().List(ctx, basketapi.BasketBalancePrimaryKey{})
	for kit.Next() {
		v, _ := kit.Value()
		baskets = append(baskets, v)
	}
	// the global sum invariant (what C01 preserves step by step) on the enumerated state
	for _, b := range batches {
		var s api.BatchSupply
		zz.Assume(zz.OrmRow0(zzinv.TBatchSupply, &s, b.Key))
		total := zz.QInt(0)
		for _, bal := range balances {
			mine := bal.BatchKey == b.Key
			total = zz.QAdd(total, zz.QIf(mine, zz.QAdd(zz.QAdd(zz.QParse(bal.TradableAmount), zz.QParse(bal.RetiredAmount)), zz.QParse(bal.EscrowedAmount)), zz.QInt(0)))
		}
		for _, bb := range baskets {
			total = zz.QAdd(total, zz.QIf(bb.BatchDenom == b.Denom, zz.QParse(bb.Balance), zz.QInt(0)))
		}
		zz.Assume(zz.QEq(zz.QAdd(zz.QParse(s.TradableAmount), zz.QParse(s.RetiredAmount)), total))
	}
	// batches are created with at least one issuance and balance rows are never deleted: a
	// state with a batch has a balance row (ValidateGenesis rejects "supply but no balances")
	zz.Assume(len(batches) == 0 || len(balances) > 0)
	err := ValidateGenesis(nil)
	zz.Assert(err == nil, "C09 a state satisfying the module invariant is accepted by ValidateGenesis")
	zz.Reach("validate genesis")
}
