//go:build verif

package keeper

import (
	sdkmath "cosmossdk.io/math"
	sdk "github.com/cosmos/cosmos-sdk/types"

	api "github.com/regen-network/regen-ledger/api/v2/regen/ecocredit/marketplace/v1"
	"github.com/regen-network/regen-ledger/types/v2/math"
	markettypes "github.com/regen-network/regen-ledger/x/ecocredit/v3/marketplace/types/v1"
	zz "github.com/regen-network/regen-ledger/x/ecocredit/v3/zzverif"
)

// acceptedFeeParams: arbitrary fee parameters accepted by the module's own validator.
func zzvAcceptedFeeParams() *api.FeeParams {
	fp := &api.FeeParams{BuyerPercentageFee: zz.NondetAtom("buyer_fee"), SellerPercentageFee: zz.NondetAtom("seller_fee")}
	zz.Assume(zz.Merged(func() bool {
		var g markettypes.FeeParams
		zz.PulsarToGogo(&g, fp)
		return g.Validate() == nil
	}))
	return fp
}

// symbolic purchase: a positive integer ask amount and a positive quantity with at most 6
// decimal places (what BuyDirect passes to the cost functions)
func zzvPurchase() (sdkmath.Int, math.Dec) {
	// the truncation helper is checked path by path in C19; here its paths are merged
	zz.MergeCallee("(github.com/regen-network/regen-ledger/types/v2/math.Dec).SdkIntTrim")
	var ask sdkmath.Int
	zz.NondetInto("ask", &ask)
	zz.Assume(ask.IsPositive())
	zz.Assume(zz.QLt(zz.QOf(ask), zz.QPow10(zz.Bound("ask_digits", 30))))
	q, err := math.NewPositiveFixedDecFromString(zz.NondetAtom("quantity"), 6)
	zz.Assume(err == nil)
	zz.Assume(zz.QLt(zz.QOf(q), zz.QPow10(zz.Bound("qty_digits", 20))))
	// products are uninterpreted in this run (mul_abstract): the one fact about the
	// product of the two bounded positive factors that the obligations need
	zz.Assume(zz.QLt(zz.QMul(zz.QOf(q), zz.QOf(ask)), zz.QPow10(zz.Bound("ask_digits", 30)+zz.Bound("qty_digits", 20))))
	return ask, q
}

// C07 (cost kernel): amounts are exact / truncated as the property states.
func VerifHarness_C07_CostKernel() {
	ask, q := zzvPurchase()
	fp := zzvAcceptedFeeParams()
	rb, rs := zz.QParse(fp.BuyerPercentageFee), zz.QParse(fp.SellerPercentageFee)
	// fee rates within the bounds of this run; the zero rate and rates above 1 are the subject of C18
	zz.Assume(zz.And(zz.QLt(zz.QInt(0), rb), zz.QLe(rb, zz.QInt(1))))
	zz.Assume(zz.And(zz.QLt(zz.QInt(0), rs), zz.QLe(rs, zz.QInt(1))))
	exactSub := zz.QMul(zz.QOf(q), zz.QOf(ask))
	subtotal, err := getSubTotalCost(ask, q)
	zz.Assert(err == nil, "C07 the subtotal of a valid purchase is computed without error")
	if err != nil {
		return
	}
	zz.Assert(zz.QEq(zz.QOf(subtotal), exactSub), "C07 subtotal = quantity x ask price exactly")
	total, buyerFee, err := getTotalCostAndBuyerFee(subtotal, fp)
	zz.Assert(err == nil, "C07 the buyer fee of a valid purchase is computed without error")
	if err != nil {
		return
	}
	sellerFee, err := getSellerFee(subtotal, fp)
	zz.Assert(err == nil, "C07 the seller fee of a valid purchase is computed without error")
	if err != nil {
		return
	}
	exactBF, exactSF := zz.QMul(exactSub, rb), zz.QMul(exactSub, rs)
	zz.Assert(zz.QEq(zz.QOf(buyerFee), exactBF), "C07 buyer fee = subtotal x buyer rate exactly")
	zz.Assert(zz.QEq(zz.QOf(sellerFee), exactSF), "C07 seller fee = subtotal x seller rate exactly")
	zz.Assert(zz.QEq(zz.QOf(total), zz.QAdd(exactSub, exactBF)), "C07 total = subtotal + buyer fee exactly")
	// the coins that fillOrder moves
	totalFee, _ := buyerFee.Add(sellerFee)
	payment, _ := subtotal.Sub(sellerFee)
	feeCoin, payCoin := zz.QOf(totalFee.SdkIntTrim()), zz.QOf(payment.SdkIntTrim())
	one := zz.QInt(1)
	zz.Assert(zz.And(zz.QLt(zz.QSub(zz.QSub(exactSub, exactSF), one), payCoin), zz.QLe(payCoin, zz.QSub(exactSub, exactSF))), "C07 the seller is credited quantity x ask minus the seller fee within one base unit")
	zz.Assert(zz.And(zz.QLt(zz.QSub(zz.QAdd(exactBF, exactSF), one), feeCoin), zz.QLe(feeCoin, zz.QAdd(exactBF, exactSF))), "C07 the fee pool is credited buyer fee plus seller fee within one base unit")
	zz.Assert(zz.QLe(zz.QAdd(feeCoin, payCoin), zz.QAdd(exactSub, exactBF)), "C07 the buyer is never debited more than quantity x ask x (1 + buyer fee rate)")
	// the funds check uses trunc(total): it covers what is debited
	zz.Assert(zz.QLe(zz.QAdd(feeCoin, payCoin), zz.QOf(total.SdkIntTrim())), "C07 the buyer's funds check covers everything that is debited")
	zz.Assert(zz.QEq(zz.QOf(buyerFee.SdkIntTrim()), zz.QFloor(exactBF)), "C07 the max-fee check compares against the buyer fee rounded down")
	zz.Reach("cost kernel")
}

// C18 (acceptance vs use): every fee parameter value the validators accept lets a purchase
// whose own preconditions hold go through: no error from the fee computations and no
// negative payment (sdk.NewCoin panics on a negative amount).
func VerifHarness_C18_FeeParamsUse() {
	ask, q := zzvPurchase()
	fp := zzvAcceptedFeeParams()
	subtotal, err := getSubTotalCost(ask, q)
	zz.Assume(err == nil)
	_, buyerFee, err := getTotalCostAndBuyerFee(subtotal, fp)
	zz.Assert(err == nil, "C18 accepted fee params never make the buyer fee computation fail")
	if err != nil {
		return
	}
	sellerFee, err := getSellerFee(subtotal, fp)
	zz.Assert(err == nil, "C18 accepted fee params never make the seller fee computation fail")
	if err != nil {
		return
	}
	payment, err := subtotal.Sub(sellerFee)
	zz.Assert(err == nil, "C18 accepted fee params never make the seller payment computation fail")
	zz.Assert(zz.QLe(zz.QInt(0), zz.QOf(payment)), "C18 accepted fee params never make the seller payment negative (sdk.NewCoin would panic)")
	totalFee, _ := buyerFee.Add(sellerFee)
	zz.Assert(zz.QLe(zz.QInt(0), zz.QOf(totalFee)), "C18 accepted fee params never make the fee negative")
	_ = sdk.Coin{}
	zz.Reach("fee params use")
}

// C07 (rounding region): once quantity x ask needs more than 34 significant digits the
// subtotal is rounded by the decimal128 context. This harness looks only at that region
// (the cost kernel above is run with bounds that exclude it).
func VerifHarness_C07_SubtotalRounding() {
	var ask sdkmath.Int
	zz.NondetInto("ask", &ask)
	zz.Assume(ask.IsPositive())
	zz.Assume(zz.QLt(zz.QOf(ask), zz.QPow10(40)))
	q, err := math.NewPositiveFixedDecFromString(zz.NondetAtom("quantity"), 6)
	zz.Assume(err == nil)
	zz.Assume(zz.QLt(zz.QOf(q), zz.QPow10(12)))
	subtotal, err := getSubTotalCost(ask, q)
	if err != nil {
		return
	}
	zz.Assert(zz.QEq(zz.QOf(subtotal), zz.QMul(zz.QOf(q), zz.QOf(ask))), "C07 subtotal = quantity x ask price exactly [products above 34 significant digits]")
	zz.Reach("subtotal")
}
