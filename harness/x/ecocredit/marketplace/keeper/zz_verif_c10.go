//go:build verif

package keeper

import (
	"context"

	types "github.com/regen-network/regen-ledger/x/ecocredit/v3/marketplace/types/v1"
	"github.com/regen-network/regen-ledger/x/ecocredit/v3/zzinv"
	zz "github.com/regen-network/regen-ledger/x/ecocredit/v3/zzverif"
)

// C10: determinism of every message handler by self-composition (zzinv.RunDet).

func VerifHarness_C10_MarketSell() {
	zzinv.Install()
	k, _ := zzvSymKeeper()
	req := &types.MsgSell{}
	zzinv.RunDet(&k, req, func(ctx context.Context) (interface{}, error) { return k.Sell(ctx, req) })
}

func VerifHarness_C10_MarketUpdateSellOrders() {
	zzinv.Install()
	k, _ := zzvSymKeeper()
	req := &types.MsgUpdateSellOrders{}
	zzinv.RunDet(&k, req, func(ctx context.Context) (interface{}, error) { return k.UpdateSellOrders(ctx, req) })
}

func VerifHarness_C10_MarketCancelSellOrder() {
	zzinv.Install()
	k, _ := zzvSymKeeper()
	req := &types.MsgCancelSellOrder{}
	zzinv.RunDet(&k, req, func(ctx context.Context) (interface{}, error) { return k.CancelSellOrder(ctx, req) })
}

func VerifHarness_C10_MarketBuyDirect() {
	zzinv.Install()
	k, _ := zzvSymKeeper()
	req := &types.MsgBuyDirect{}
	zzinv.RunDet(&k, req, func(ctx context.Context) (interface{}, error) { return k.BuyDirect(ctx, req) })
}

func VerifHarness_C10_MarketAddAllowedDenom() {
	zzinv.Install()
	k, _ := zzvSymKeeper()
	req := &types.MsgAddAllowedDenom{}
	zzinv.RunDet(&k, req, func(ctx context.Context) (interface{}, error) { return k.AddAllowedDenom(ctx, req) })
}

func VerifHarness_C10_MarketRemoveAllowedDenom() {
	zzinv.Install()
	k, _ := zzvSymKeeper()
	req := &types.MsgRemoveAllowedDenom{}
	zzinv.RunDet(&k, req, func(ctx context.Context) (interface{}, error) { return k.RemoveAllowedDenom(ctx, req) })
}

func VerifHarness_C10_MarketGovSetFeeParams() {
	zzinv.Install()
	k, _ := zzvSymKeeper()
	req := &types.MsgGovSetFeeParams{}
	zzinv.RunDet(&k, req, func(ctx context.Context) (interface{}, error) { return k.GovSetFeeParams(ctx, req) })
}

func VerifHarness_C10_MarketGovSendFromFeePool() {
	zzinv.Install()
	k, _ := zzvSymKeeper()
	req := &types.MsgGovSendFromFeePool{}
	zzinv.RunDet(&k, req, func(ctx context.Context) (interface{}, error) { return k.GovSendFromFeePool(ctx, req) })
}

// begin-block pruning: two executions at the same block time from the same state
func VerifHarness_C10_MarketPruneSellOrders() {
	zzinv.Install()
	k, _ := zzvSymKeeper()
	zz.ProcessState(&k)
	run := func() (err error, panicked bool) {
		defer func() {
			if r := recover(); r != nil {
				panicked = true
			}
		}()
		return k.PruneSellOrders(zz.Context()), false
	}
	zz.OrmBegin()
	e1, p1 := run()
	zz.EffectsSnapshot()
	zz.OrmRollbackIf(true)
	e2, p2 := run()
	zz.Assert(zz.And((e1 == nil) == (e2 == nil), p1 == p2), "C10 two executions of begin-block pruning from the same state have the same outcome")
	zz.Assert(zz.SameEffects(), "C10 two executions of begin-block pruning from the same state leave the same table contents, coins and events")
	zz.Assert(zz.HiddenWrites() == 0, "C10 begin-block pruning writes no per-process state")
	zz.Assert(zz.WallClockReads() == 0, "C10 begin-block pruning reads no wall clock")
	zz.Reach("two executions")
}
