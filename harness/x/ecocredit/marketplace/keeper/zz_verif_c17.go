//go:build verif

package keeper

import (
	sdk "github.com/cosmos/cosmos-sdk/types"

	api "github.com/regen-network/regen-ledger/api/v2/regen/ecocredit/marketplace/v1"
	baseapi "github.com/regen-network/regen-ledger/api/v2/regen/ecocredit/v1"
	types "github.com/regen-network/regen-ledger/x/ecocredit/v3/marketplace/types/v1"
	"github.com/regen-network/regen-ledger/x/ecocredit/v3/zzinv"
	zz "github.com/regen-network/regen-ledger/x/ecocredit/v3/zzverif"
)

// C17 (marketplace): sell-order list queries return exactly the stored orders that satisfy
// the filter, each with the stored fields (batch denom and ask denom are joined lookups).

func zzvOrderInfoOK(o *types.SellOrderInfo, row *api.SellOrder) bool {
	var batch baseapi.Batch
	bf := zz.OrmRow0(zzinv.TBatch, &batch, row.BatchKey)
	var market api.Market
	mf := zz.OrmRow0(zzinv.TMarket, &market, row.MarketId)
	sellerOK := zz.Merged(func() bool {
		a, err := sdk.AccAddressFromBech32(o.Seller)
		return err == nil && zz.BytesEq(a, row.Seller)
	})
	exp := false
	if o.Expiration == nil || row.Expiration == nil {
		exp = o.Expiration == nil && row.Expiration == nil
	} else {
		exp = zz.And(o.Expiration.Seconds == row.Expiration.Seconds, o.Expiration.Nanos == row.Expiration.Nanos)
	}
	return zz.And(zz.And(zz.And(bf, mf), zz.And(sellerOK, o.BatchDenom == batch.Denom)),
		zz.And(zz.And(o.Quantity == row.Quantity, o.AskDenom == market.BankDenom), zz.And(zz.And(o.AskAmount == row.AskAmount, o.DisableAutoRetire == row.DisableAutoRetire), exp)))
}

func zzvCheckOrderList(name string, got []*types.SellOrderInfo, want func(row *api.SellOrder) bool) {
	for i, o := range got {
		var row api.SellOrder
		found := zz.OrmRow0(zzinv.TSellOrder, &row, o.Id)
		zz.Assert(zz.And(found, want(&row)), "C17 "+name+" returns only orders that satisfy the filter")
		zz.Assert(zzvOrderInfoOK(o, &row), "C17 "+name+" returns the stored fields of each order")
		for j := 0; j < i; j++ {
			zz.Assert(got[j].Id != o.Id, "C17 "+name+" returns no order twice")
		}
	}
	id := zz.NondetU64("sk.order")
	var row api.SellOrder
	if zz.OrmRow0(zzinv.TSellOrder, &row, id) {
		in := false
		for _, o := range got {
			in = zz.Or(in, o.Id == id)
		}
		zz.Assert(zz.Implies(want(&row), in), "C17 "+name+" returns every order that satisfies the filter")
	}
}

func VerifHarness_C17_SellOrdersByBatch() {
	zzinv.Install()
	k, _ := zzvSymKeeper()
	req := &types.QuerySellOrdersByBatchRequest{}
	zz.NondetInto("req", req)
	req.Pagination = nil
	res, err := k.SellOrdersByBatch(zz.Context(), req)
	var batch baseapi.Batch
	found := zz.OrmLookup0(zzinv.TBatch, "Denom", &batch, req.BatchDenom)
	if err != nil {
		zz.Assert(!found, "C17 SellOrdersByBatch fails only for an unknown batch")
		zz.Reach("query fails")
		return
	}
	zz.Assert(found, "C17 SellOrdersByBatch succeeds only for a known batch")
	zzvCheckOrderList("SellOrdersByBatch", res.SellOrders, func(row *api.SellOrder) bool { return row.BatchKey == batch.Key })
	zz.Reach("query succeeds")
}

func VerifHarness_C17_SellOrdersBySeller() {
	zzinv.Install()
	k, _ := zzvSymKeeper()
	req := &types.QuerySellOrdersBySellerRequest{}
	zz.NondetInto("req", req)
	req.Pagination = nil
	res, err := k.SellOrdersBySeller(zz.Context(), req)
	seller, aerr := sdk.AccAddressFromBech32(req.Seller)
	if err != nil {
		zz.Assert(aerr != nil, "C17 SellOrdersBySeller fails only for an invalid address")
		zz.Reach("query fails")
		return
	}
	zzvCheckOrderList("SellOrdersBySeller", res.SellOrders, func(row *api.SellOrder) bool { return zz.BytesEq(row.Seller, seller) })
	zz.Reach("query succeeds")
}

func VerifHarness_C17_SellOrders() {
	zzinv.Install()
	k, _ := zzvSymKeeper()
	req := &types.QuerySellOrdersRequest{}
	zz.NondetInto("req", req)
	req.Pagination = nil
	res, err := k.SellOrders(zz.Context(), req)
	zz.Assert(err == nil, "C17 SellOrders does not fail in a consistent state")
	if err != nil {
		return
	}
	zzvCheckOrderList("SellOrders", res.SellOrders, func(row *api.SellOrder) bool { return true })
	zz.Reach("query succeeds")
}
