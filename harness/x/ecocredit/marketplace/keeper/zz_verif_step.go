//go:build verif

package keeper

import (
	"context"

	sdk "github.com/cosmos/cosmos-sdk/types"

	marketapi "github.com/regen-network/regen-ledger/api/v2/regen/ecocredit/marketplace/v1"
	baseapi "github.com/regen-network/regen-ledger/api/v2/regen/ecocredit/v1"
	"github.com/regen-network/regen-ledger/x/ecocredit/v3"
	types "github.com/regen-network/regen-ledger/x/ecocredit/v3/marketplace/types/v1"
	"github.com/regen-network/regen-ledger/x/ecocredit/v3/zzinv"
	zz "github.com/regen-network/regen-ledger/x/ecocredit/v3/zzverif"
)

func symKeeper() (Keeper, []byte) {
	ss := zz.OrmStore("marketplace").(marketapi.StateStore)
	cs := zz.OrmStore("ecocredit").(baseapi.StateStore)
	bk := zz.BankKeeper().(ecocredit.BankKeeper)
	authority := zz.NondetBytesAtom("authority")
	return NewKeeper(ss, cs, bk, sdk.AccAddress(authority)), authority
}

func runStep(req sdk.Msg, call func(k Keeper, ctx context.Context) error, hook func(s *zzinv.Step)) {
	zzinv.Install()
	k, authority := symKeeper()
	zzinv.RunStep(authority, req, func(ctx context.Context) error { return call(k, ctx) }, nil, hook)
}

func VerifHarness_Step_MarketSell() {
	req := &types.MsgSell{}
	runStep(req, func(k Keeper, ctx context.Context) error { _, err := k.Sell(ctx, req); return err }, nil)
}

func VerifHarness_Step_MarketUpdateSellOrders() {
	req := &types.MsgUpdateSellOrders{}
	runStep(req, func(k Keeper, ctx context.Context) error { _, err := k.UpdateSellOrders(ctx, req); return err }, nil)
}

func VerifHarness_Step_MarketCancelSellOrder() {
	req := &types.MsgCancelSellOrder{}
	runStep(req, func(k Keeper, ctx context.Context) error { _, err := k.CancelSellOrder(ctx, req); return err }, nil)
}

func VerifHarness_Step_MarketBuyDirect() {
	req := &types.MsgBuyDirect{}
	runStep(req, func(k Keeper, ctx context.Context) error { _, err := k.BuyDirect(ctx, req); return err },
		func(s *zzinv.Step) {
			// C03 exception: the seller of a filled order loses exactly the purchased quantity
			// from escrow (and nothing from tradable); everybody else loses nothing
			s.SkipC03 = true
			a, b := s.Sk.Acct, s.Sk.Batch
			zz.Assume(zz.Not(zz.BytesEq(a, s.Signer)))
			zz.Assume(zz.Not(zz.IsModuleAccount(a)))
			da := zzinv.DeltaAccount(a, b)
			filled := zz.QInt(0)
			if s.Err == nil {
				for _, o := range req.Orders {
					var so marketapi.SellOrder
					found := zz.OrmRow0(zzinv.TSellOrder, &so, o.SellOrderId)
					mine := zz.And(found, zz.And(zz.BytesEq(so.Seller, a), so.BatchKey == b))
					filled = zz.QAdd(filled, zz.QIf(mine, zz.QParse(o.Quantity), zz.QInt(0)))
				}
			}
			zz.Assert(zz.QLe(zz.QInt(0), da.Tradable), "C03 BuyDirect never reduces a non-signer's tradable credits")
			zz.Assert(zz.QEq(da.Escrowed, zz.QNeg(filled)), "C03 BuyDirect reduces a seller's escrow by exactly the quantities bought from their orders")
			zz.Assert(zz.QLe(zz.BankBal0(a, s.Sk.Denom), zz.BankBal1(a, s.Sk.Denom)), "C03 BuyDirect never reduces a non-signer's coins")
		})
}

func VerifHarness_Step_MarketAddAllowedDenom() {
	req := &types.MsgAddAllowedDenom{}
	runStep(req, func(k Keeper, ctx context.Context) error { _, err := k.AddAllowedDenom(ctx, req); return err }, nil)
}

func VerifHarness_Step_MarketRemoveAllowedDenom() {
	req := &types.MsgRemoveAllowedDenom{}
	runStep(req, func(k Keeper, ctx context.Context) error { _, err := k.RemoveAllowedDenom(ctx, req); return err }, nil)
}

func VerifHarness_Step_MarketGovSetFeeParams() {
	req := &types.MsgGovSetFeeParams{}
	runStep(req, func(k Keeper, ctx context.Context) error { _, err := k.GovSetFeeParams(ctx, req); return err }, nil)
}

func VerifHarness_Step_MarketGovSendFromFeePool() {
	req := &types.MsgGovSendFromFeePool{}
	runStep(req, func(k Keeper, ctx context.Context) error { _, err := k.GovSendFromFeePool(ctx, req); return err }, nil)
}

// Begin-block processing: expired sell orders are pruned.
func VerifHarness_Step_MarketPruneSellOrders() {
	zzinv.Install()
	k, _ := symKeeper()
	sk := zzinv.PickSkolems()
	zz.OrmBegin()
	err := k.PruneSellOrders(zz.Context())
	zzinv.CheckC01(sk.Batch)
	zzinv.CheckC02(sk.Batch, zz.QInt(0))
	zzinv.CheckC04(sk.Acct, sk.Batch)
	zzinv.CheckC03(sk.Acct, sk.Batch, sk.Denom)
	if err == nil {
		zz.Reach("prune succeeds")
	}
}
