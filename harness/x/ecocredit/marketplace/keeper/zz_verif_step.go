//go:build verif

package keeper

import (
	"context"
	"errors"
	"time"

	sdk "github.com/cosmos/cosmos-sdk/types"
	sdkerrors "github.com/cosmos/cosmos-sdk/types/errors"

	marketapi "github.com/regen-network/regen-ledger/api/v2/regen/ecocredit/marketplace/v1"
	baseapi "github.com/regen-network/regen-ledger/api/v2/regen/ecocredit/v1"
	"github.com/regen-network/regen-ledger/x/ecocredit/v3"
	types "github.com/regen-network/regen-ledger/x/ecocredit/v3/marketplace/types/v1"
	"github.com/regen-network/regen-ledger/x/ecocredit/v3/zzinv"
	zz "github.com/regen-network/regen-ledger/x/ecocredit/v3/zzverif"
)

func zzvSymKeeper() (Keeper, []byte) {
	ss := zz.OrmStore("marketplace").(marketapi.StateStore)
	cs := zz.OrmStore("ecocredit").(baseapi.StateStore)
	bk := zz.BankKeeper().(ecocredit.BankKeeper)
	authority := zz.NondetBytesAtom("authority")
	return NewKeeper(ss, cs, bk, sdk.AccAddress(authority)), authority
}

func zzvRunStep(req sdk.Msg, call func(k Keeper, ctx context.Context) error, hook func(s *zzinv.Step)) {
	zzinv.Install()
	k, authority := zzvSymKeeper()
	zzinv.RunStep(authority, req, func(ctx context.Context) error { return call(k, ctx) }, nil, hook)
}

func zzvGovOnly(name string) func(s *zzinv.Step) {
	return func(s *zzinv.Step) {
		if s.Err == nil {
			zz.Assert(zz.BytesEq(s.Signer, s.Authority), "C08 "+name+" succeeds only for the governance authority")
		}
	}
}

func zzvBlockTime() time.Time { return sdk.UnwrapSDKContext(zz.Context()).BlockTime() }

func VerifHarness_Step_MarketSell() {
	req := &types.MsgSell{}
	zzvRunStep(req, func(k Keeper, ctx context.Context) error { _, err := k.Sell(ctx, req); return err },
		func(s *zzinv.Step) {
			if s.Err == nil {
				for _, o := range req.Orders {
					zz.Assert(zz.OrmExists0(zzinv.TAllowedDenom, o.AskPrice.Denom), "C06 Sell succeeds only with an ask denom on the allowed-denom list")
					if o.Expiration != nil {
						zz.Assert(zz.TimeLt(zzvBlockTime(), *o.Expiration), "C12 Sell accepts only an expiration strictly after block time")
					}
				}
				// every created order belongs to the signer
				zz.Assert(zz.AllWritten2(zzinv.TSellOrder, func(pre *marketapi.SellOrder, pe bool, post *marketapi.SellOrder, qe bool) bool {
					return zz.And(zz.Not(pe), zz.And(qe, zz.BytesEq(post.Seller, s.Signer)))
				}), "C08 Sell only creates orders owned by the signer")
			}
		})
}

func VerifHarness_Step_MarketUpdateSellOrders() {
	req := &types.MsgUpdateSellOrders{}
	zzvRunStep(req, func(k Keeper, ctx context.Context) error { _, err := k.UpdateSellOrders(ctx, req); return err },
		func(s *zzinv.Step) {
			if s.Err == nil {
				for _, u := range req.Updates {
					var so marketapi.SellOrder
					found := zz.OrmRow0(zzinv.TSellOrder, &so, u.SellOrderId)
					zz.Assert(zz.And(found, zz.BytesEq(so.Seller, s.Signer)), "C08 UpdateSellOrders succeeds only for the owner of each named order")
					if u.NewAskPrice != nil {
						zz.Assert(zz.OrmExists0(zzinv.TAllowedDenom, u.NewAskPrice.Denom), "C06 UpdateSellOrders accepts a new ask price only in an allowed denom")
					}
					if u.NewExpiration != nil {
						zz.Assert(zz.TimeLt(zzvBlockTime(), *u.NewExpiration), "C12 UpdateSellOrders accepts only an expiration strictly after block time")
					}
				}
				zz.Assert(zz.AllWritten2(zzinv.TSellOrder, func(pre *marketapi.SellOrder, pe bool, post *marketapi.SellOrder, qe bool) bool {
					return zz.And(pe, zz.BytesEq(pre.Seller, s.Signer))
				}), "C08 UpdateSellOrders writes only orders of the signer")
			}
		})
}

func VerifHarness_Step_MarketCancelSellOrder() {
	req := &types.MsgCancelSellOrder{}
	zzvRunStep(req, func(k Keeper, ctx context.Context) error { _, err := k.CancelSellOrder(ctx, req); return err },
		func(s *zzinv.Step) {
			if s.Err == nil {
				var so marketapi.SellOrder
				found := zz.OrmRow0(zzinv.TSellOrder, &so, req.SellOrderId)
				zz.Assert(zz.And(found, zz.BytesEq(so.Seller, s.Signer)), "C08 CancelSellOrder succeeds only for the owner of the order")
				zz.Assert(zz.Not(zz.OrmExists1(zzinv.TSellOrder, req.SellOrderId)), "C06 a cancelled order no longer exists")
				zz.Assert(zz.OrmWrites(zzinv.TSellOrder) == 1, "C08 CancelSellOrder touches only the named order")
			}
		})
}

func zzvBuyDirectHook(req *types.MsgBuyDirect) func(s *zzinv.Step) {
	return func(s *zzinv.Step) {
		// C03 exception: the seller of a filled order loses exactly the purchased quantity
		// from escrow (and nothing from tradable); everybody else loses nothing
		s.SkipC03 = true
		a, b := s.Sk.Acct, s.Sk.Batch
		zz.Assume(zz.Not(zz.BytesEq(a, s.Signer)))
		zz.Assume(zz.Not(zz.IsModuleAccount(a)))
		da := zzinv.DeltaAccount(a, b)
		filled := zz.QInt(0)
		if s.Err == nil {
			for _, o := range req.Orders {
				var so marketapi.SellOrder
				found := zz.OrmRow0(zzinv.TSellOrder, &so, o.SellOrderId)
				mine := zz.And(found, zz.And(zz.BytesEq(so.Seller, a), so.BatchKey == b))
				filled = zz.QAdd(filled, zz.QIf(mine, zz.QParse(o.Quantity), zz.QInt(0)))
			}
		}
		zz.Assert(zz.QLe(zz.QInt(0), da.Tradable), "C03 BuyDirect never reduces a non-signer's tradable credits")
		zz.Assert(zz.QEq(da.Escrowed, zz.QNeg(filled)), "C03 BuyDirect reduces a seller's escrow by exactly the quantities bought from their orders")
		zz.Assert(zz.QLe(zz.BankBal0(a, s.Sk.Denom), zz.BankBal1(a, s.Sk.Denom)), "C03 BuyDirect never reduces a non-signer's coins")
		// C07: a successful purchase reduces each named order by exactly the quantities bought
		// from it (the same order may be named more than once) and removes it when nothing is
		// left, and the buyer receives exactly the quantities bought of each batch
		if s.Err == nil {
			oid := zz.NondetU64("sk.order")
			var o0, o1 marketapi.SellOrder
			e0 := zz.OrmRow0(zzinv.TSellOrder, &o0, oid)
			e1 := zz.OrmRow1(zzinv.TSellOrder, &o1, oid)
			bought, got := zz.QInt(0), zz.QInt(0)
			for _, o := range req.Orders {
				bought = zz.QAdd(bought, zz.QIf(o.SellOrderId == oid, zz.QParse(o.Quantity), zz.QInt(0)))
				var so marketapi.SellOrder
				zz.OrmRow0(zzinv.TSellOrder, &so, o.SellOrderId)
				got = zz.QAdd(got, zz.QIf(so.BatchKey == b, zz.QParse(o.Quantity), zz.QInt(0)))
			}
			left := zz.QSub(zz.QParse(o0.Quantity), bought)
			zz.Assert(zz.Implies(e0, zz.And(e1 == zz.QLt(zz.QInt(0), left), zz.Implies(e1, zz.QEq(zz.QParse(o1.Quantity), left)))), "C07 BuyDirect reduces each order by exactly the quantities bought from it and removes it when filled")
			db := zzinv.DeltaAccount(s.Signer, b)
			zz.Assert(zz.QEq(zz.QAdd(db.Tradable, db.Retired), got), "C07 the buyer receives exactly the quantities bought of each batch")
			// C07/C03, per entry: bid denom = ask denom of the order's own market, bid >= ask,
			// auto-retire disabled only where the sell order allows it; the buyer gets retired
			// credits exactly for the entries with auto-retire; a non-signer is paid only as the
			// seller of a filled order, in that order's ask denomination
			gotTradable, gotRetired := zz.QInt(0), zz.QInt(0)
			paidHere := false
			for _, o := range req.Orders {
				var so marketapi.SellOrder
				zz.OrmRow0(zzinv.TSellOrder, &so, o.SellOrderId)
				var m marketapi.Market
				mf := zz.OrmRow0(zzinv.TMarket, &m, so.MarketId)
				zz.Assert(zz.And(mf, zz.StrEq(o.BidPrice.Denom, m.BankDenom)), "C07 BuyDirect succeeds only if each bid denom equals the ask denom of the order's own market")
				ask, aok := sdk.NewIntFromString(so.AskAmount)
				zz.Assert(zz.And(aok, zz.QLe(zz.QOf(ask), zz.QOf(o.BidPrice.Amount))), "C07 BuyDirect succeeds only if each bid is at least the ask")
				zz.Assert(zz.Implies(o.DisableAutoRetire, so.DisableAutoRetire), "C07 auto-retire is disabled only where the sell order allows it")
				q := zz.QIf(so.BatchKey == b, zz.QParse(o.Quantity), zz.QInt(0))
				gotTradable = zz.QAdd(gotTradable, zz.QIf(o.DisableAutoRetire, q, zz.QInt(0)))
				gotRetired = zz.QAdd(gotRetired, zz.QIf(o.DisableAutoRetire, zz.QInt(0), q))
				paidHere = zz.Or(paidHere, zz.And(zz.BytesEq(so.Seller, a), zz.StrEq(m.BankDenom, s.Sk.Denom)))
			}
			zz.Assert(zz.And(zz.QEq(db.Tradable, gotTradable), zz.QEq(db.Retired, gotRetired)), "C07 the buyer receives retired credits exactly for the entries with auto-retire and tradable credits for the others")
			zz.Assert(zz.Implies(zz.QLt(zz.BankBal0(a, s.Sk.Denom), zz.BankBal1(a, s.Sk.Denom)), paidHere), "C03 BuyDirect pays a non-signer only as the seller of a filled order and only in that order's ask denomination")
		}
		// C18: whatever the accepted fee parameters, a purchase never aborts because one of
		// the computed transfers (payment, fee, burn) truncates to a zero coin, which the
		// bank module rejects
		zz.Assert(!(s.Err != nil && errors.Is(s.Err, sdkerrors.ErrInvalidCoins)), "C18 BuyDirect never fails because a computed coin amount is zero (accepted fee rates, small purchases)")
	}
}

func VerifHarness_Step_MarketBuyDirect() {
	req := &types.MsgBuyDirect{}
	zzvRunStep(req, func(k Keeper, ctx context.Context) error { _, err := k.BuyDirect(ctx, req); return err }, zzvBuyDirectHook(req))
}

// BuyDirect with two entries in one message (the same sell order may be named twice), in the
// configuration without marketplace fees and with moderate prices: the part of the two-entry
// state space that is cheap enough to explore (stated restriction; the general one-entry
// harness above has no such restriction).
func VerifHarness_Step_MarketBuyDirectTwo() { zzvBuyDirectTwo(false) }

// The same executions with the light obligation set (C01/C03/C04/C05/C06/C07/C18 and the
// BuyDirect hook): cheap enough for the quick tier.
func VerifHarness_Step_MarketBuyDirectTwoLight() { zzvBuyDirectTwo(true) }

func zzvBuyDirectTwo(light bool) {
	zzinv.Light = light
	req := &types.MsgBuyDirect{}
	zzvRunStep(req, func(k Keeper, ctx context.Context) error {
		zz.Assume(len(req.Orders) == 2)
		var fp marketapi.FeeParams
		if zz.OrmRow0("regen.ecocredit.marketplace.v1.FeeParams", &fp) {
			zz.Assume(zz.And(fp.BuyerPercentageFee == "", fp.SellerPercentageFee == ""))
		}
		for _, o := range req.Orders {
			zz.Assume(o.MaxFeeAmount == nil)
			zz.Assume(zz.QLt(zz.QParse(o.Quantity), zz.QPow10(9)))
			var so marketapi.SellOrder
			if zz.OrmRow0(zzinv.TSellOrder, &so, o.SellOrderId) {
				ask, ok := sdk.NewIntFromString(so.AskAmount)
				zz.Assume(ok)
				zz.Assume(zz.QLt(zz.QOf(ask), zz.QPow10(12)))
			}
		}
		_, err := k.BuyDirect(ctx, req)
		return err
	}, zzvBuyDirectHook(req))
}

func VerifHarness_Step_MarketAddAllowedDenom() {
	req := &types.MsgAddAllowedDenom{}
	zzvRunStep(req, func(k Keeper, ctx context.Context) error { _, err := k.AddAllowedDenom(ctx, req); return err }, zzvGovOnly("AddAllowedDenom"))
}

func VerifHarness_Step_MarketRemoveAllowedDenom() {
	req := &types.MsgRemoveAllowedDenom{}
	zzvRunStep(req, func(k Keeper, ctx context.Context) error { _, err := k.RemoveAllowedDenom(ctx, req); return err }, zzvGovOnly("RemoveAllowedDenom"))
}

func VerifHarness_Step_MarketGovSetFeeParams() {
	req := &types.MsgGovSetFeeParams{}
	zzvRunStep(req, func(k Keeper, ctx context.Context) error { _, err := k.GovSetFeeParams(ctx, req); return err }, zzvGovOnly("GovSetFeeParams"))
}

func VerifHarness_Step_MarketGovSendFromFeePool() {
	req := &types.MsgGovSendFromFeePool{}
	zzvRunStep(req, func(k Keeper, ctx context.Context) error { _, err := k.GovSendFromFeePool(ctx, req); return err }, zzvGovOnly("GovSendFromFeePool"))
}

// Begin-block processing: expired sell orders are pruned (C12, and the block-level parts
// of C01..C06).
func VerifHarness_Step_MarketPruneSellOrders() {
	zzinv.Install()
	k, _ := zzvSymKeeper()
	sk := zzinv.PickSkolems()
	order := zz.NondetU64("order*")
	T := zzvBlockTime()
	// block time is after the unix epoch (consensus)
	zz.Assume(zz.TimeLt(time.Unix(0, 1), T))
	zz.OrmBegin()
	var err error
	panicked := false
	func() {
		defer func() {
			if r := recover(); r != nil {
				panicked = true
			}
		}()
		err = k.PruneSellOrders(zz.Context())
	}()
	zz.Assert(zz.Not(panicked), "C12 begin-block pruning never panics")
	zz.Assert(err == nil, "C12 begin-block pruning never returns an error")
	zzinv.CheckC01(sk.Batch)
	zzinv.CheckC02(sk.Batch, zz.QInt(0))
	zzinv.CheckC04(sk.Acct, sk.Batch)
	zzinv.CheckC05(sk.Basket)
	zzinv.CheckC06(sk.Acct, sk.Batch)
	zzinv.CheckC09()
	zzinv.CheckRefs()
	// C03: block-level processing only moves an account's own credits from escrow to tradable
	da := zzinv.DeltaAccount(sk.Acct, sk.Batch)
	zz.Assert(zz.QEq(zz.QAdd(da.Tradable, da.Escrowed), zz.QInt(0)), "C03 expiry leaves every account's tradable+escrowed total unchanged")
	zz.Assert(zz.QLe(da.Escrowed, zz.QInt(0)), "C03 expiry only moves credits out of escrow")
	zz.Assert(zz.QEq(da.Retired, zz.QInt(0)), "C03 expiry does not touch retired balances")
	zz.Assert(zz.BankCalls() == 0, "C03 expiry moves no coins")
	// C12: the quantity of every removed order of the account returns to its tradable balance
	dOrders := zz.SumDelta(zzinv.TSellOrder, func(r *marketapi.SellOrder) zz.Q {
		return zz.QIf(zz.And(zz.BytesEq(r.Seller, sk.Acct), r.BatchKey == sk.Batch), zz.QParse(r.Quantity), zz.QInt(0))
	})
	zz.Assert(zz.QEq(da.Tradable, zz.QNeg(dOrders)), "C12 the quantity of every removed order returns to the seller's tradable balance")
	// C12: exactly the orders with 1ns <= expiration <= T disappear, all others are untouched
	var o0, o1 marketapi.SellOrder
	e0 := zz.OrmRow0(zzinv.TSellOrder, &o0, order)
	e1 := zz.OrmRow1(zzinv.TSellOrder, &o1, order)
	expired := false
	if o0.Expiration != nil {
		exp := o0.Expiration.AsTime()
		expired = zz.And(zz.TimeLe(time.Unix(0, 1), exp), zz.TimeLe(exp, T))
	}
	zz.Assert(e1 == zz.And(e0, zz.Not(expired)), "C12 after pruning an order exists iff it existed and has no expiration at or before block time")
	zz.Assert(zz.Implies(e1, zz.And(zz.StrEq(o0.Quantity, o1.Quantity), zz.And(o0.BatchKey == o1.BatchKey, zz.BytesEq(o0.Seller, o1.Seller)))), "C12 a surviving order is untouched")
	if err == nil {
		zz.Reach("prune succeeds")
	}
}
