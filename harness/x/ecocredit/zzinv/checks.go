//go:build verif

package zzinv

import (
	"errors"

	sdk "github.com/cosmos/cosmos-sdk/types"
	sdkerrors "github.com/cosmos/cosmos-sdk/types/errors"

	basketapi "github.com/regen-network/regen-ledger/api/v2/regen/ecocredit/basket/v1"
	marketapi "github.com/regen-network/regen-ledger/api/v2/regen/ecocredit/marketplace/v1"
	api "github.com/regen-network/regen-ledger/api/v2/regen/ecocredit/v1"
	basetypes "github.com/regen-network/regen-ledger/x/ecocredit/v3/base/types/v1"
	baskettypes "github.com/regen-network/regen-ledger/x/ecocredit/v3/basket/types/v1"
	markettypes "github.com/regen-network/regen-ledger/x/ecocredit/v3/marketplace/types/v1"
	zz "github.com/regen-network/regen-ledger/x/ecocredit/v3/zzverif"
)

// ---- C05: basket tokens are backed 1:1 (step form)

// CheckC05: for the skolem basket k, the bank supply of its token changed by exactly
// 10^precision times the change of the credits it holds.
func CheckC05(k uint64) {
	var b0, b1 basketapi.Basket
	zz.OrmRow0(TBasket, &b0, k)
	e1 := zz.OrmRow1(TBasket, &b1, k)
	denom := zz.SIf(e1, b1.BasketDenom, b0.BasketDenom)
	dBal := zz.SumDelta(TBasketBalance, func(r *basketapi.BasketBalance) zz.Q {
		return zz.QIf(r.BasketId == k, zz.QParse(r.Balance), q0())
	})
	dSup := zz.QSub(zz.BankSupply1(denom), zz.BankSupply0(denom))
	zz.Label("c05.delta.supply", dSup)
	zz.Label("c05.delta.credits", dBal)
	zz.Assert(zz.Implies(e1, zz.QEq(dSup, zz.QMul(zz.QPow10(Precision), dBal))), "C05 basket token supply delta = 10^precision x basket credit delta")
	var p0, p1 basketapi.Basket
	pe0 := zz.OrmRow0(TBasket, &p0, k)
	pe1 := zz.OrmRow1(TBasket, &p1, k)
	zz.Assert(zz.Implies(pe0, zz.And(pe1, zz.StrEq(p0.BasketDenom, p1.BasketDenom))), "C05 a basket is never deleted and its denom never changes")
}

// BasketDenomOf is the token denom of the skolem basket (post-state row, else pre-state).
func BasketDenomOf(k uint64) string {
	var b0, b1 basketapi.Basket
	zz.OrmRow0(TBasket, &b0, k)
	e1 := zz.OrmRow1(TBasket, &b1, k)
	return zz.SIf(e1, b1.BasketDenom, b0.BasketDenom)
}

// CheckC05FeeBurn is C05 for the handlers that burn a governance-configured fee: the
// obligation is split by whether the fee is denominated in the skolem basket's own token.
func CheckC05FeeBurn(k uint64, feeDenom string, feeSet bool) {
	inBasketToken := zz.And(feeSet, zz.StrEq(feeDenom, BasketDenomOf(k)))
	var b1 basketapi.Basket
	e1 := zz.OrmRow1(TBasket, &b1, k)
	denom := BasketDenomOf(k)
	dBal := zz.SumDelta(TBasketBalance, func(r *basketapi.BasketBalance) zz.Q {
		return zz.QIf(r.BasketId == k, zz.QParse(r.Balance), q0())
	})
	dSup := zz.QSub(zz.BankSupply1(denom), zz.BankSupply0(denom))
	ok := zz.Implies(e1, zz.QEq(dSup, zz.QMul(zz.QPow10(Precision), dBal)))
	zz.Assert(zz.Implies(zz.Not(inBasketToken), ok), "C05 basket token supply delta = 10^precision x basket credit delta (fee not denominated in this basket's token)")
	zz.Assert(zz.Implies(inBasketToken, ok), "C05 basket token supply delta = 10^precision x basket credit delta [creation fee denominated in a basket token]")
}

// ---- C06: escrow = open sell orders (step form)

func CheckC06(a []byte, b uint64) {
	da := DeltaAccount(a, b)
	dOrders := zz.SumDelta(TSellOrder, func(r *marketapi.SellOrder) zz.Q {
		return zz.QIf(zz.And(zz.BytesEq(r.Seller, a), r.BatchKey == b), zz.QParse(r.Quantity), q0())
	})
	zz.Label("c06.delta.escrow", da.Escrowed)
	zz.Label("c06.delta.orders", dOrders)
	zz.Assert(zz.QEq(da.Escrowed, dOrders), "C06 escrow delta = delta of the account's open sell order quantities")
	zz.Assert(zz.AllWritten2(TSellOrder, func(pre *marketapi.SellOrder, preExists bool, post *marketapi.SellOrder, postExists bool) bool {
		same := and(zz.BytesEq(pre.Seller, post.Seller), pre.BatchKey == post.BatchKey)
		return zz.Implies(zz.And(preExists, postExists), same)
	}), "C06 an order's seller and batch never change")
	W = 1
	zz.Assert(zz.AllWritten(TSellOrder, func(r *marketapi.SellOrder) bool {
		pos := zz.QLt(q0(), zz.QParse(r.Quantity))
		ask, isInt := sdk.NewIntFromString(r.AskAmount)
		askPos := false
		if isInt {
			askPos = ask.IsPositive()
		}
		return and(AmountOK(r.Quantity), pos, isInt, askPos, exists(TBatch, r.BatchKey), exists(TMarket, r.MarketId))
	}), "C06 every written open order has positive quantity within precision, positive integer ask, existing batch and market")
	W = 0
}

// ---- C09 (kernel): rows written by a handler satisfy the module's own state validators

func validBatch(r *api.Batch) bool {
	return zz.Merged(func() bool {
		var g basetypes.Batch
		zz.PulsarToGogo(&g, r)
		return g.Validate() == nil
	})
}

func validBasketBalance(r *basketapi.BasketBalance) bool {
	return zz.Merged(func() bool {
		var g baskettypes.BasketBalance
		zz.PulsarToGogo(&g, r)
		return g.Validate() == nil
	})
}

// CheckC09 asserts the real Validate() of each state type on every row the step wrote.
func CheckC09() {
	zz.Assert(zz.AllWritten(TCreditType, CreditTypeOK), "C09 written CreditType rows pass CreditType.Validate")
	zz.Assert(zz.AllWritten(TClass, func(r *api.Class) bool {
		return zz.Merged(func() bool { var g basetypes.Class; zz.PulsarToGogo(&g, r); return g.Validate() == nil })
	}), "C09 written Class rows pass Class.Validate")
	zz.Assert(zz.AllWritten(TClassIssuer, func(r *api.ClassIssuer) bool {
		return zz.Merged(func() bool { var g basetypes.ClassIssuer; zz.PulsarToGogo(&g, r); return g.Validate() == nil })
	}), "C09 written ClassIssuer rows pass ClassIssuer.Validate")
	zz.Assert(zz.AllWritten(TProject, func(r *api.Project) bool {
		return zz.Merged(func() bool { var g basetypes.Project; zz.PulsarToGogo(&g, r); return g.Validate() == nil })
	}), "C09 written Project rows pass Project.Validate")
	zz.Assert(zz.AllWritten(TBatch, validBatch), "C09 written Batch rows pass Batch.Validate")
	zz.Assert(zz.AllWritten(TBatchBalance, func(r *api.BatchBalance) bool {
		return zz.Merged(func() bool { var g basetypes.BatchBalance; zz.PulsarToGogo(&g, r); return g.Validate() == nil })
	}), "C09 written BatchBalance rows pass BatchBalance.Validate")
	zz.Assert(zz.AllWritten(TBatchSupply, func(r *api.BatchSupply) bool {
		return zz.Merged(func() bool { var g basetypes.BatchSupply; zz.PulsarToGogo(&g, r); return g.Validate() == nil })
	}), "C09 written BatchSupply rows pass BatchSupply.Validate")
	zz.Assert(zz.AllWritten(TBatchContract, func(r *api.BatchContract) bool {
		return zz.Merged(func() bool { var g basetypes.BatchContract; zz.PulsarToGogo(&g, r); return g.Validate() == nil })
	}), "C09 written BatchContract rows pass BatchContract.Validate")
	zz.Assert(zz.AllWritten(TOriginTx, func(r *api.OriginTxIndex) bool {
		return zz.Merged(func() bool { var g basetypes.OriginTxIndex; zz.PulsarToGogo(&g, r); return g.Validate() == nil })
	}), "C09 written OriginTxIndex rows pass OriginTxIndex.Validate")
	zz.Assert(zz.AllWritten("regen.ecocredit.v1.ClassFee", ClassFeeOK), "C09 a written ClassFee passes ClassFee.Validate")
	zz.Assert(zz.AllWritten("regen.ecocredit.v1.AllowedBridgeChain", func(r *api.AllowedBridgeChain) bool {
		return zz.Merged(func() bool { var g basetypes.AllowedBridgeChain; zz.PulsarToGogo(&g, r); return g.Validate() == nil })
	}), "C09 written AllowedBridgeChain rows pass AllowedBridgeChain.Validate")
	zz.Assert(zz.AllWritten(TBasket, func(r *basketapi.Basket) bool {
		return zz.Merged(func() bool { var g baskettypes.Basket; zz.PulsarToGogo(&g, r); return g.Validate() == nil })
	}), "C09 written Basket rows pass Basket.Validate")
	zz.Assert(zz.AllWritten(TBasketClass, func(r *basketapi.BasketClass) bool {
		return zz.Merged(func() bool { var g baskettypes.BasketClass; zz.PulsarToGogo(&g, r); return g.Validate() == nil })
	}), "C09 written BasketClass rows pass BasketClass.Validate")
	zz.Assert(zz.AllWritten(TBasketBalance, validBasketBalance), "C09 written BasketBalance rows pass BasketBalance.Validate")
	zz.Assert(zz.AllWritten("regen.ecocredit.basket.v1.BasketFee", BasketFeeOK), "C09 a written BasketFee passes BasketFee.Validate")
	zz.Assert(zz.AllWritten(TSellOrder, func(r *marketapi.SellOrder) bool {
		return zz.Merged(func() bool { var g markettypes.SellOrder; zz.PulsarToGogo(&g, r); return g.Validate() == nil })
	}), "C09 written SellOrder rows pass SellOrder.Validate")
	zz.Assert(zz.AllWritten(TMarket, MarketOK), "C09 written Market rows pass Market.Validate")
	zz.Assert(zz.AllWritten(TAllowedDenom, AllowedDenomOK), "C09 written AllowedDenom rows pass AllowedDenom.Validate")
	zz.Assert(zz.AllWritten("regen.ecocredit.marketplace.v1.FeeParams", FeeParamsOK), "C09 a written FeeParams passes FeeParams.Validate")
}

// ---- C14 (handler level): every stored reference resolves after the step

// CheckRefs asserts the reference part of R on every written row, in the post-state, and
// that rows other rows refer to are never deleted.
func CheckRefs() {
	W = 1
	zz.Assert(zz.AllWritten(TClass, func(r *api.Class) bool { return exists(TCreditType, r.CreditTypeAbbrev) }), "C14 a written class refers to an existing credit type")
	zz.Assert(zz.AllWritten(TClassIssuer, func(r *api.ClassIssuer) bool { return exists(TClass, r.ClassKey) }), "C14 a written class issuer refers to an existing class")
	zz.Assert(zz.AllWritten(TProject, func(r *api.Project) bool { return exists(TClass, r.ClassKey) }), "C14 a written project refers to an existing class")
	zz.Assert(zz.AllWritten(TBatch, func(r *api.Batch) bool {
		var p api.Project
		pe := row(TProject, &p, r.ProjectKey)
		return and(pe, exists(TClass, p.ClassKey), exists(TBatchSupply, r.Key))
	}), "C14 a written batch refers to an existing project, class and supply row")
	zz.Assert(zz.AllWritten(TBatchBalance, func(r *api.BatchBalance) bool { return exists(TBatch, r.BatchKey) }), "C14 a written balance refers to an existing batch")
	zz.Assert(zz.AllWritten(TBatchSupply, func(r *api.BatchSupply) bool { return exists(TBatch, r.BatchKey) }), "C14 a written supply refers to an existing batch")
	zz.Assert(zz.AllWritten(TBatchContract, func(r *api.BatchContract) bool { return and(exists(TBatch, r.BatchKey), exists(TClass, r.ClassKey)) }), "C14 a written batch contract refers to an existing batch and class")
	zz.Assert(zz.AllWritten(TBasketClass, func(r *basketapi.BasketClass) bool {
		var c api.Class
		return and(exists(TBasket, r.BasketId), lookup(TClass, "Id", &c, r.ClassId))
	}), "C14 a written basket class refers to an existing basket and class")
	zz.Assert(zz.AllWritten(TBasketBalance, func(r *basketapi.BasketBalance) bool {
		var b api.Batch
		return and(exists(TBasket, r.BasketId), lookup(TBatch, "Denom", &b, r.BatchDenom))
	}), "C14 a written basket balance refers to an existing basket and batch")
	W = 0
	n := zz.OrmDeletes(TCreditType) + zz.OrmDeletes(TClass) + zz.OrmDeletes(TProject) + zz.OrmDeletes(TBatch) +
		zz.OrmDeletes(TBatchSupply) + zz.OrmDeletes(TBatchBalance) + zz.OrmDeletes(TBasket) + zz.OrmDeletes(TMarket) + zz.OrmDeletes(TBatchContract) + zz.OrmDeletes(TOriginTx)
	zz.Assert(n == 0, "C14 rows that other rows refer to (credit types, classes, projects, batches, supplies, balances, baskets, markets, contracts, origin txs) are never deleted")
	// identifiers of existing entities never change
	zz.Assert(zz.AllWritten2(TClass, func(pre *api.Class, pe bool, post *api.Class, qe bool) bool {
		return zz.Implies(pe, zz.And(zz.StrEq(pre.Id, post.Id), zz.StrEq(pre.CreditTypeAbbrev, post.CreditTypeAbbrev)))
	}), "C14 a class keeps its id and credit type")
	zz.Assert(zz.AllWritten2(TProject, func(pre *api.Project, pe bool, post *api.Project, qe bool) bool {
		return zz.Implies(pe, zz.And(zz.StrEq(pre.Id, post.Id), pre.ClassKey == post.ClassKey))
	}), "C14 a project keeps its id and class")
	zz.Assert(zz.AllWritten2(TBatch, func(pre *api.Batch, pe bool, post *api.Batch, qe bool) bool {
		return zz.Implies(pe, zz.And(zz.StrEq(pre.Denom, post.Denom), pre.ProjectKey == post.ProjectKey))
	}), "C14 a batch keeps its denom and project")
}

// ---- C08: sealed batches

func CheckSealed(b uint64) {
	var r0 api.Batch
	e0 := zz.OrmRow0(TBatch, &r0, b)
	ds := DeltaSupply(b)
	total := zz.QAdd(zz.QAdd(ds.Tradable, ds.Retired), ds.Cancelled)
	zz.Assert(zz.Implies(zz.And(e0, zz.Not(r0.Open)), zz.QEq(total, q0())), "C08 nothing is minted into a sealed batch")
	zz.Assert(zz.AllWritten2(TBatch, func(pre *api.Batch, pe bool, post *api.Batch, qe bool) bool {
		sealed := zz.And(pe, zz.Not(pre.Open))
		return zz.Implies(sealed, zz.And(zz.Not(post.Open), zz.StrEq(pre.Metadata, post.Metadata)))
	}), "C08 a sealed batch is never re-opened and its metadata never changes")
}

// BalanceBefore: a sorts strictly before b in the basket's (start date, denom) order, the
// order of the BasketBalance start-date index (an unset date sorts as the epoch).
func BalanceBefore(a, b *basketapi.BasketBalance) bool {
	as, an := int64(0), int32(0)
	if a.BatchStartDate != nil {
		as, an = a.BatchStartDate.Seconds, a.BatchStartDate.Nanos
	}
	bs, bn := int64(0), int32(0)
	if b.BatchStartDate != nil {
		bs, bn = b.BatchStartDate.Seconds, b.BatchStartDate.Nanos
	}
	sameTime := zz.And(as == bs, an == bn)
	return zz.Or(as < bs, zz.Or(zz.And(as == bs, an < bn), zz.And(sameTime, zz.StrLess(a.BatchDenom, b.BatchDenom))))
}

// IsFeeError: the failure is one of the three ways a creation fee makes a message fail
// (insufficient offer, insufficient funds, coins rejected by the bank module).
func IsFeeError(err error) bool {
	return errors.Is(err, sdkerrors.ErrInsufficientFee) || errors.Is(err, sdkerrors.ErrInsufficientFunds) || errors.Is(err, sdkerrors.ErrInvalidCoins)
}

// CheckFeeNeverDisables (C18): whatever fee value the state validators accept, a creation
// whose offer covers the fee in the fee denom, from an account that holds the fee, does not
// fail because of the fee. what names the message; the zero fee is a separate obligation.
func CheckFeeNeverDisables(what string, err error, feeSet bool, feeAmt zz.Q, offered bool, sameDenom bool, offer zz.Q, balance zz.Q) {
	if err == nil || !feeSet {
		return
	}
	covered := zz.And(zz.And(offered, sameDenom), zz.And(zz.QLe(feeAmt, offer), zz.QLe(feeAmt, balance)))
	feeErr := IsFeeError(err)
	zz.Assert(zz.Implies(zz.And(covered, zz.QLt(q0(), feeAmt)), !feeErr), "C18 "+what+" does not fail on a positive fee that is offered and funded")
	zz.Assert(zz.Implies(zz.And(covered, zz.QEq(q0(), feeAmt)), !feeErr), "C18 "+what+" does not fail on the fee when the offer covers it [zero fee accepted by the state validator]")
}
