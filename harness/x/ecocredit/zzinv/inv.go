//go:build verif

// Package zzinv holds the state invariant R of the ecocredit module (DESIGN section 4.1)
// and the per-step obligations shared by all handler harnesses.
package zzinv

import (
	"context"

	"google.golang.org/protobuf/types/known/timestamppb"

	sdk "github.com/cosmos/cosmos-sdk/types"

	basketapi "github.com/regen-network/regen-ledger/api/v2/regen/ecocredit/basket/v1"
	marketapi "github.com/regen-network/regen-ledger/api/v2/regen/ecocredit/marketplace/v1"
	api "github.com/regen-network/regen-ledger/api/v2/regen/ecocredit/v1"
	"github.com/regen-network/regen-ledger/x/ecocredit/v3/base"
	basetypes "github.com/regen-network/regen-ledger/x/ecocredit/v3/base/types/v1"
	baskettypes "github.com/regen-network/regen-ledger/x/ecocredit/v3/basket/types/v1"
	markettypes "github.com/regen-network/regen-ledger/x/ecocredit/v3/marketplace/types/v1"
	zz "github.com/regen-network/regen-ledger/x/ecocredit/v3/zzverif"
)

const (
	TCreditType    = "regen.ecocredit.v1.CreditType"
	TClass         = "regen.ecocredit.v1.Class"
	TClassIssuer   = "regen.ecocredit.v1.ClassIssuer"
	TProject       = "regen.ecocredit.v1.Project"
	TBatch         = "regen.ecocredit.v1.Batch"
	TBatchBalance  = "regen.ecocredit.v1.BatchBalance"
	TBatchSupply   = "regen.ecocredit.v1.BatchSupply"
	TBatchContract = "regen.ecocredit.v1.BatchContract"
	TOriginTx      = "regen.ecocredit.v1.OriginTxIndex"
	TBasket        = "regen.ecocredit.basket.v1.Basket"
	TBasketClass   = "regen.ecocredit.basket.v1.BasketClass"
	TBasketBalance = "regen.ecocredit.basket.v1.BasketBalance"
	TSellOrder     = "regen.ecocredit.marketplace.v1.SellOrder"
	TMarket        = "regen.ecocredit.marketplace.v1.Market"
	TAllowedDenom  = "regen.ecocredit.marketplace.v1.AllowedDenom"

	// Precision is the only precision CreditType.Validate accepts.
	Precision = 6
)

func and(cs ...bool) bool {
	r := true
	for _, c := range cs {
		r = zz.And(r, c)
	}
	return r
}

// AmountOK: a stored credit amount: non-negative decimal, at most Precision places.
func AmountOK(s string) bool { return zz.DecStrOK(s, Precision) }

// W selects the state the reference checks of the row invariants look at: 0 = pre-state
// (assumptions), 1 = post-state (obligations on written rows).
var W int

func exists(table string, keys ...interface{}) bool {
	if W == 0 {
		return zz.OrmExists0(table, keys...)
	}
	return zz.OrmExists1(table, keys...)
}

func row(table string, dst interface{}, keys ...interface{}) bool {
	if W == 0 {
		return zz.OrmRow0(table, dst, keys...)
	}
	return zz.OrmRow1(table, dst, keys...)
}

func lookup(table, index string, dst interface{}, vals ...interface{}) bool {
	if W == 0 {
		return zz.OrmLookup0(table, index, dst, vals...)
	}
	return zz.OrmLookup1(table, index, dst, vals...)
}

// Each XOK is the row invariant of table X: the module's own state validator (the real
// Validate() of the gogo state type, merged into one formula) plus the amount-precision
// and referential-integrity facts that Validate does not check.

func CreditTypeOK(r *api.CreditType) bool {
	return zz.Merged(func() bool {
		var g basetypes.CreditType
		zz.PulsarToGogo(&g, r)
		return g.Validate() == nil
	})
}

func ClassOK(r *api.Class) bool {
	v := zz.Merged(func() bool {
		var g basetypes.Class
		zz.PulsarToGogo(&g, r)
		return g.Validate() == nil
	})
	return and(v, exists(TCreditType, r.CreditTypeAbbrev))
}

func ClassIssuerOK(r *api.ClassIssuer) bool {
	v := zz.Merged(func() bool {
		var g basetypes.ClassIssuer
		zz.PulsarToGogo(&g, r)
		return g.Validate() == nil
	})
	return and(v, exists(TClass, r.ClassKey))
}

func ProjectOK(r *api.Project) bool {
	v := zz.Merged(func() bool {
		var g basetypes.Project
		zz.PulsarToGogo(&g, r)
		return g.Validate() == nil
	})
	return and(v, exists(TClass, r.ClassKey))
}

// BatchOK: the batch's project and class exist, the class id embedded in the denom is the
// id of that class, and the supply row exists.
func BatchOK(r *api.Batch) bool {
	v := zz.Merged(func() bool {
		var g basetypes.Batch
		zz.PulsarToGogo(&g, r)
		return g.Validate() == nil
	})
	var p api.Project
	pe := row(TProject, &p, r.ProjectKey)
	var c api.Class
	ce := row(TClass, &c, p.ClassKey)
	return and(v, pe, ce, zz.StrEq(base.GetClassIDFromBatchDenom(r.Denom), c.Id), exists(TBatchSupply, r.Key),
		TimestampOK(r.StartDate), TimestampOK(r.EndDate), TimestampOK(r.IssuanceDate))
}

func BatchBalanceOK(r *api.BatchBalance) bool {
	v := zz.Merged(func() bool {
		var g basetypes.BatchBalance
		zz.PulsarToGogo(&g, r)
		return g.Validate() == nil
	})
	return and(v, AmountOK(r.TradableAmount), AmountOK(r.RetiredAmount), AmountOK(r.EscrowedAmount), exists(TBatch, r.BatchKey))
}

func BatchSupplyOK(r *api.BatchSupply) bool {
	v := zz.Merged(func() bool {
		var g basetypes.BatchSupply
		zz.PulsarToGogo(&g, r)
		return g.Validate() == nil
	})
	return and(v, AmountOK(r.TradableAmount), AmountOK(r.RetiredAmount), AmountOK(r.CancelledAmount), exists(TBatch, r.BatchKey))
}

func BatchContractOK(r *api.BatchContract) bool {
	v := zz.Merged(func() bool {
		var g basetypes.BatchContract
		zz.PulsarToGogo(&g, r)
		return g.Validate() == nil
	})
	// the contract's class is the class of the batch's project
	var bt api.Batch
	be := row(TBatch, &bt, r.BatchKey)
	var p api.Project
	pe := row(TProject, &p, bt.ProjectKey)
	return and(v, be, pe, p.ClassKey == r.ClassKey, exists(TClass, r.ClassKey))
}

func ClassFeeOK(r *api.ClassFee) bool {
	return zz.Merged(func() bool {
		var g basetypes.ClassFee
		zz.PulsarToGogo(&g, r)
		return g.Validate() == nil
	})
}

func ClassSequenceOK(r *api.ClassSequence) bool     { return r.NextSequence >= 1 }
func ProjectSequenceOK(r *api.ProjectSequence) bool { return r.NextSequence >= 1 }
func BatchSequenceOK(r *api.BatchSequence) bool     { return r.NextSequence >= 1 }

func BasketOK(r *basketapi.Basket) bool {
	v := zz.Merged(func() bool {
		var g baskettypes.Basket
		zz.PulsarToGogo(&g, r)
		return g.Validate() == nil
	})
	// Basket.Validate's denom regex uses unescaped dots, so it alone does not imply a valid
	// bank denom; every denom produced by Create is one (shown on the Create step).
	return and(v, exists(TCreditType, r.CreditTypeAbbrev), zz.ValidSdkDenom(r.BasketDenom))
}

func BasketClassOK(r *basketapi.BasketClass) bool {
	var c api.Class
	return and(exists(TBasket, r.BasketId), lookup(TClass, "Id", &c, r.ClassId))
}

func BasketBalanceOK(r *basketapi.BasketBalance) bool {
	v := zz.Merged(func() bool {
		var g baskettypes.BasketBalance
		zz.PulsarToGogo(&g, r)
		return g.Validate() == nil
	})
	var b api.Batch
	be := lookup(TBatch, "Denom", &b, r.BatchDenom)
	return and(v, AmountOK(r.Balance), exists(TBasket, r.BasketId), be, TimestampOK(r.BatchStartDate))
}

func BasketFeeOK(r *basketapi.BasketFee) bool {
	return zz.Merged(func() bool {
		var g baskettypes.BasketFee
		zz.PulsarToGogo(&g, r)
		return g.Validate() == nil
	})
}

func SellOrderOK(r *marketapi.SellOrder) bool {
	v := zz.Merged(func() bool {
		var g markettypes.SellOrder
		zz.PulsarToGogo(&g, r)
		return g.Validate() == nil
	})
	// an open order is backed by an escrow balance row of its seller (I-sum-escrow), and a
	// stored expiration is a normalised timestamp (it was written by timestamppb.New)
	return and(v, AmountOK(r.Quantity), zz.QLt(zz.QInt(0), zz.QParse(r.Quantity)),
		exists(TBatch, r.BatchKey), exists(TMarket, r.MarketId), exists(TBatchBalance, r.Seller, r.BatchKey), TimestampOK(r.Expiration))
}

// TimestampOK: nil, or a normalised protobuf timestamp in the valid range.
func TimestampOK(ts *timestamppb.Timestamp) bool {
	return zz.Merged(func() bool {
		if ts == nil {
			return true
		}
		return zz.And(zz.And(ts.Nanos >= 0, ts.Nanos < 1000000000), zz.And(ts.Seconds >= -62135596800, ts.Seconds <= 253402300799))
	})
}

func MarketOK(r *marketapi.Market) bool {
	return zz.Merged(func() bool {
		var g markettypes.Market
		zz.PulsarToGogo(&g, r)
		return g.Validate() == nil
	})
}

func AllowedDenomOK(r *marketapi.AllowedDenom) bool {
	return zz.Merged(func() bool {
		var g markettypes.AllowedDenom
		zz.PulsarToGogo(&g, r)
		return g.Validate() == nil
	})
}

func FeeParamsOK(r *marketapi.FeeParams) bool {
	return zz.Merged(func() bool {
		var g markettypes.FeeParams
		zz.PulsarToGogo(&g, r)
		return g.Validate() == nil
	})
}

// Install registers the row invariants: each is assumed for every row of the pre-state
// the step reads (and for the rows those refer to).
const mathPkg = "github.com/regen-network/regen-ledger/types/v2/math"

func Install() {
	// pure decimal helpers are summarised by merging their paths (they are checked path by
	// path, including operand aliasing, by the C19 harnesses)
	zz.MergeCallee("(" + mathPkg + ".Dec).SdkIntTrim")
	zz.MergeCallee("(" + mathPkg + ".Dec).Mul")
	zz.MergeCallee("(" + mathPkg + ".Dec).MulExact")
	zz.MergeCallee("(" + mathPkg + ".Dec).QuoExact")
	zz.MergeCallee("(" + mathPkg + ".Dec).Reduce")
	zz.OrmInvariant(TCreditType, CreditTypeOK)
	zz.OrmInvariant(TClass, ClassOK)
	zz.OrmInvariant(TClassIssuer, ClassIssuerOK)
	zz.OrmInvariant(TProject, ProjectOK)
	zz.OrmInvariant(TBatch, BatchOK)
	zz.OrmInvariant(TBatchBalance, BatchBalanceOK)
	zz.OrmInvariant(TBatchSupply, BatchSupplyOK)
	zz.OrmInvariant(TBatchContract, BatchContractOK)
	zz.OrmInvariant("regen.ecocredit.v1.ClassFee", ClassFeeOK)
	zz.OrmInvariant("regen.ecocredit.v1.ClassSequence", ClassSequenceOK)
	zz.OrmInvariant("regen.ecocredit.v1.ProjectSequence", ProjectSequenceOK)
	zz.OrmInvariant("regen.ecocredit.v1.BatchSequence", BatchSequenceOK)
	zz.OrmInvariant(TBasket, BasketOK)
	zz.OrmInvariant(TBasketClass, BasketClassOK)
	zz.OrmInvariant(TBasketBalance, BasketBalanceOK)
	zz.OrmInvariant("regen.ecocredit.basket.v1.BasketFee", BasketFeeOK)
	zz.OrmInvariant(TSellOrder, SellOrderOK)
	zz.OrmInvariant(TMarket, MarketOK)
	zz.OrmInvariant(TAllowedDenom, AllowedDenomOK)
	zz.OrmInvariant("regen.ecocredit.marketplace.v1.FeeParams", FeeParamsOK)
	// sum invariants are instantiated as soon as the rows they relate have been read
	zz.OrmOnTouch(TBatchBalance, AssumeSums)
	zz.OrmOnTouch(TBatchSupply, AssumeSums)
	zz.OrmOnTouch(TBasketBalance, AssumeSums)
	zz.OrmOnTouch(TSellOrder, AssumeSums)
}

// AssumeSums instantiates the sum invariants on the rows the step has touched: for every
// touched supply row, the touched balances (and basket holdings) of that batch add up to
// at most the supply ("assume as remainder", DESIGN 4.2). Call it after the handler ran,
// when the read set is complete.
func AssumeSums() {
	zz.Assume(zz.AllTouched0(TBatchSupply, func(s *api.BatchSupply) bool {
		var bt api.Batch
		zz.OrmRow0(TBatch, &bt, s.BatchKey)
		held := zz.SumTouched0(TBatchBalance, func(r *api.BatchBalance) zz.Q {
			return zz.QIf(r.BatchKey == s.BatchKey, zz.QAdd(zz.QParse(r.TradableAmount), zz.QParse(r.EscrowedAmount)), q0())
		})
		inBaskets := zz.SumTouched0(TBasketBalance, func(r *basketapi.BasketBalance) zz.Q {
			return zz.QIf(zz.StrEq(r.BatchDenom, bt.Denom), zz.QParse(r.Balance), q0())
		})
		retired := zz.SumTouched0(TBatchBalance, func(r *api.BatchBalance) zz.Q {
			return zz.QIf(r.BatchKey == s.BatchKey, zz.QParse(r.RetiredAmount), q0())
		})
		return zz.And(zz.QLe(zz.QAdd(held, inBaskets), zz.QParse(s.TradableAmount)), zz.QLe(retired, zz.QParse(s.RetiredAmount)))
	}))
	// escrow covers the open sell orders of the same seller and batch
	zz.Assume(zz.AllTouched0(TBatchBalance, func(b *api.BatchBalance) bool {
		orders := zz.SumTouched0(TSellOrder, func(o *marketapi.SellOrder) zz.Q {
			return zz.QIf(zz.And(zz.BytesEq(o.Seller, b.Address), o.BatchKey == b.BatchKey), zz.QParse(o.Quantity), q0())
		})
		return zz.QLe(orders, zz.QParse(b.EscrowedAmount))
	}))
}

// Skolems are the arbitrary batch / account / bank denom the step obligations talk about.
type Skolems struct {
	Batch  uint64
	Acct   []byte
	Denom  string
	Basket uint64
}

func PickSkolems() Skolems {
	return Skolems{Batch: zz.NondetU64("batch*"), Acct: zz.NondetBytesAtom("acct*"), Denom: zz.NondetAtom("denom*"), Basket: zz.NondetU64("basket*")}
}

// ---- per-step deltas for a skolem batch

func q0() zz.Q { return zz.QInt(0) }

type SupplyDelta struct{ Tradable, Retired, Cancelled zz.Q }

func DeltaSupply(b uint64) SupplyDelta {
	return SupplyDelta{
		Tradable:  zz.SumDelta(TBatchSupply, func(r *api.BatchSupply) zz.Q { return zz.QIf(r.BatchKey == b, zz.QParse(r.TradableAmount), q0()) }),
		Retired:   zz.SumDelta(TBatchSupply, func(r *api.BatchSupply) zz.Q { return zz.QIf(r.BatchKey == b, zz.QParse(r.RetiredAmount), q0()) }),
		Cancelled: zz.SumDelta(TBatchSupply, func(r *api.BatchSupply) zz.Q { return zz.QIf(r.BatchKey == b, zz.QParse(r.CancelledAmount), q0()) }),
	}
}

type BalanceDelta struct{ Tradable, Escrowed, Retired zz.Q }

// DeltaBalances sums over all accounts' balances of batch b.
func DeltaBalances(b uint64) BalanceDelta {
	return BalanceDelta{
		Tradable: zz.SumDelta(TBatchBalance, func(r *api.BatchBalance) zz.Q { return zz.QIf(r.BatchKey == b, zz.QParse(r.TradableAmount), q0()) }),
		Escrowed: zz.SumDelta(TBatchBalance, func(r *api.BatchBalance) zz.Q { return zz.QIf(r.BatchKey == b, zz.QParse(r.EscrowedAmount), q0()) }),
		Retired:  zz.SumDelta(TBatchBalance, func(r *api.BatchBalance) zz.Q { return zz.QIf(r.BatchKey == b, zz.QParse(r.RetiredAmount), q0()) }),
	}
}

// DeltaAccount is the change of one account's balance of batch b.
func DeltaAccount(a []byte, b uint64) BalanceDelta {
	sel := func(r *api.BatchBalance) bool { return zz.And(r.BatchKey == b, zz.BytesEq(r.Address, a)) }
	return BalanceDelta{
		Tradable: zz.SumDelta(TBatchBalance, func(r *api.BatchBalance) zz.Q { return zz.QIf(sel(r), zz.QParse(r.TradableAmount), q0()) }),
		Escrowed: zz.SumDelta(TBatchBalance, func(r *api.BatchBalance) zz.Q { return zz.QIf(sel(r), zz.QParse(r.EscrowedAmount), q0()) }),
		Retired:  zz.SumDelta(TBatchBalance, func(r *api.BatchBalance) zz.Q { return zz.QIf(sel(r), zz.QParse(r.RetiredAmount), q0()) }),
	}
}

// BatchDenom is the denom of batch b (post-state row if it exists, else pre-state).
func BatchDenom(b uint64) string {
	var r1, r0 api.Batch
	e1 := zz.OrmRow1(TBatch, &r1, b)
	zz.OrmRow0(TBatch, &r0, b)
	return zz.SIf(e1, r1.Denom, r0.Denom)
}

// DeltaBaskets is the change of the total amount of batch denom held by all baskets.
func DeltaBaskets(denom string) zz.Q {
	return zz.SumDelta(TBasketBalance, func(r *basketapi.BasketBalance) zz.Q {
		return zz.QIf(zz.StrEq(r.BatchDenom, denom), zz.QParse(r.Balance), q0())
	})
}

// CheckC01 asserts the conservation step for skolem batch b and the amount part of I-row
// for every credit row written.
func CheckC01(b uint64) {
	ds := DeltaSupply(b)
	db := DeltaBalances(b)
	// basket holdings are keyed by denom: only an existing batch has one
	dk := zz.QIf(zz.OrmExists1(TBatch, b), DeltaBaskets(BatchDenom(b)), q0())
	zz.Label("delta.supply.tradable", ds.Tradable)
	zz.Label("delta.supply.retired", ds.Retired)
	zz.Label("delta.balances.tradable", db.Tradable)
	zz.Label("delta.balances.escrowed", db.Escrowed)
	zz.Label("delta.balances.retired", db.Retired)
	zz.Label("delta.baskets", dk)
	zz.Assert(zz.QEq(ds.Tradable, zz.QAdd(zz.QAdd(db.Tradable, db.Escrowed), dk)), "C01 tradable supply delta = balances + escrow + baskets delta")
	zz.Assert(zz.QEq(ds.Retired, db.Retired), "C01 retired supply delta = retired balances delta")
	zz.Assert(zz.AllWritten(TBatchBalance, func(r *api.BatchBalance) bool {
		return and(AmountOK(r.TradableAmount), AmountOK(r.RetiredAmount), AmountOK(r.EscrowedAmount))
	}), "C01 written balances are non-negative with <= precision places")
	zz.Assert(zz.AllWritten(TBatchSupply, func(r *api.BatchSupply) bool {
		return and(AmountOK(r.TradableAmount), AmountOK(r.RetiredAmount), AmountOK(r.CancelledAmount))
	}), "C01 written supplies are non-negative with <= precision places")
	zz.Assert(zz.AllWritten(TBasketBalance, func(r *basketapi.BasketBalance) bool {
		zz.Label("dbg.bb.value", zz.QParse(r.Balance))
		zz.Label("dbg.bb.ok", AmountOK(r.Balance))
		zz.Label("dbg.bb.id", r.BasketId)
		return AmountOK(r.Balance)
	}),
		"C01 written basket balances are non-negative with <= precision places")
}

// CheckC02 asserts that the issued total of batch b changed by exactly `issued`.
func CheckC02(b uint64, issued zz.Q) {
	ds := DeltaSupply(b)
	zz.Assert(zz.QEq(zz.QAdd(zz.QAdd(ds.Tradable, ds.Retired), ds.Cancelled), issued), "C02 tradable+retired+cancelled changes only by issuance")
	var r0, r1 api.Batch
	e0 := zz.OrmRow0(TBatch, &r0, b)
	e1 := zz.OrmRow1(TBatch, &r1, b)
	zz.Assert(zz.Implies(e0, e1), "C02 batches are never deleted")
	zz.Assert(zz.Implies(zz.And(e0, zz.Not(r0.Open)), zz.And(zz.Not(r1.Open), zz.QEq(issued, q0()))), "C02 a sealed batch stays sealed and its total never changes")
}

// CheckC04 asserts monotonicity of retired/cancelled quantities for skolem (a, b).
func CheckC04(a []byte, b uint64) {
	ds := DeltaSupply(b)
	da := DeltaAccount(a, b)
	zz.Assert(zz.QLe(q0(), da.Retired), "C04 an account's retired balance never decreases")
	zz.Assert(zz.QLe(q0(), ds.Retired), "C04 retired supply never decreases")
	zz.Assert(zz.QLe(q0(), ds.Cancelled), "C04 cancelled supply never decreases")
}

// CheckC03 asserts that account a (not a signer) did not lose credits of batch b or coins
// of denom d.
func CheckC03(a []byte, b uint64, d string) {
	da := DeltaAccount(a, b)
	zz.Assert(zz.QLe(q0(), da.Tradable), "C03 a non-signer's tradable credits do not decrease")
	zz.Assert(zz.QLe(q0(), da.Escrowed), "C03 a non-signer's escrowed credits do not decrease")
	zz.Assert(zz.QLe(zz.BankBal0(a, d), zz.BankBal1(a, d)), "C03 a non-signer's coins do not decrease")
}

// ---- the generic one-step harness (DESIGN section 4)

type Step struct {
	Authority []byte
	Signer    []byte
	Sk        Skolems
	Err       error
	Panicked  bool
	// SkipC05: the hook asserts its own version of C05 (fee burning handlers)
	SkipC05 bool
	// SkipC03: the handler-specific hook asserts its own version of C03 (BuyDirect)
	SkipC03 bool
}

var errPanicked = errorString("handler panicked (baseapp recovers the panic and discards the message's writes)")

type errorString string

func (e errorString) Error() string { return string(e) }

// callRecovering runs the handler the way baseapp does: a panic fails the message.
func callRecovering(call func(ctx context.Context) error) (err error, panicked bool) {
	defer func() {
		if r := recover(); r != nil {
			err = errPanicked
			panicked = true
		}
	}()
	return call(zz.Context()), false
}

// RunStep: arbitrary pre-state satisfying R, arbitrary request accepted by ValidateBasic,
// one handler execution, rollback on error, then the per-step obligations of C01..C04
// (and whatever the handler-specific hook adds).
// Light restricts RunStep to the obligations that talk about credit amounts (C01 conservation,
// C04 monotonicity, C05 basket backing, C06 escrow and the handler's own hook: C03/C07/C11/...):
// the issuance (C02), validator (C09), reference (C14) and sealed-batch (C08) obligations of
// the same handler are decided by the unrestricted harness of that handler at the smaller
// bound. It is what makes the two-row variants (Take over two basket balances, Put of two
// credits, BuyDirect of two orders) cheap enough for the quick tier.
var Light bool

func RunStep(authority []byte, req sdk.Msg, call func(ctx context.Context) error, issued func(b uint64) zz.Q, hook func(s *Step)) {
	zz.NondetInto("req", req)
	zz.Assume(req.ValidateBasic() == nil)
	s := &Step{Authority: authority, Sk: PickSkolems()}
	s.Signer = req.GetSigners()[0]
	// no user can sign for a module account
	zz.Assume(zz.Not(zz.IsModuleAccount(s.Signer)))
	zz.OrmBegin()
	s.Err, s.Panicked = callRecovering(call)
	zz.OrmRollbackIf(s.Err != nil)
	CheckC01(s.Sk.Batch)
	iss := zz.QInt(0)
	if issued != nil && s.Err == nil {
		iss = issued(s.Sk.Batch)
	}
	if !Light {
		CheckC02(s.Sk.Batch, iss)
	}
	CheckC04(s.Sk.Acct, s.Sk.Batch)
	if hook != nil {
		hook(s)
	}
	if !s.SkipC05 {
		CheckC05(s.Sk.Basket)
	}
	CheckC06(s.Sk.Acct, s.Sk.Batch)
	if !Light {
		CheckC09()
		CheckRefs()
		CheckSealed(s.Sk.Batch)
	}
	if s.Err == nil {
		zz.Reach("handler succeeds")
	} else if s.Panicked {
		zz.Reach("handler panics")
	} else {
		zz.Reach("handler fails")
	}
	// C03 last: it restricts the skolem account to accounts that did not sign
	zz.Assume(zz.Not(zz.BytesEq(s.Sk.Acct, s.Signer)))
	zz.Assume(zz.Not(zz.IsModuleAccount(s.Sk.Acct)))
	if !s.SkipC03 {
		CheckC03(s.Sk.Acct, s.Sk.Batch, s.Sk.Denom)
	}
}

// RunDet (C10): self-composition of one handler. The handler is executed twice from the
// same arbitrary pre-state, request and block time; every source of nondeterminism the
// engine models (map iteration order, wall clock) is chosen independently in the two
// executions; the final table contents, coins, events, outcome and response must agree,
// and no execution may write per-process state (package-level variables, memory reachable
// from the keeper), which is what makes a restart between blocks invisible.
func RunDet(keeper interface{}, req sdk.Msg, call func(ctx context.Context) (interface{}, error)) {
	zz.NondetInto("req", req)
	zz.Assume(req.ValidateBasic() == nil)
	zz.ProcessState(keeper)
	run := func() (resp interface{}, err error, panicked bool) {
		defer func() {
			if r := recover(); r != nil {
				err = errPanicked
				panicked = true
			}
		}()
		resp, err = call(zz.Context())
		return resp, err, false
	}
	zz.OrmBegin()
	r1, e1, p1 := run()
	zz.EffectsSnapshot()
	zz.OrmRollbackIf(true)
	r2, e2, p2 := run()
	zz.Assert(zz.And((e1 == nil) == (e2 == nil), p1 == p2), "C10 two executions of the same message from the same state have the same outcome")
	zz.Assert(zz.SameEffects(), "C10 two executions of the same message from the same state leave the same table contents, coins and events")
	if e1 == nil && e2 == nil {
		zz.Assert(zz.DeepEqual(r1, r2), "C10 two executions of the same message from the same state give the same response")
	}
	zz.Assert(zz.HiddenWrites() == 0, "C10 the handler writes no per-process state (package-level variables, keeper memory)")
	zz.Assert(zz.WallClockReads() == 0, "C10 the handler reads no wall clock and starts no goroutine")
	zz.Reach("two executions")
}
