//go:build verif

// Package zzinv holds the state invariant R of the ecocredit module (DESIGN section 4.1)
// and the per-step obligations shared by all handler harnesses.
package zzinv

import (
	basketapi "github.com/regen-network/regen-ledger/api/v2/regen/ecocredit/basket/v1"
	marketapi "github.com/regen-network/regen-ledger/api/v2/regen/ecocredit/marketplace/v1"
	api "github.com/regen-network/regen-ledger/api/v2/regen/ecocredit/v1"
	"github.com/regen-network/regen-ledger/x/ecocredit/v3/base"
	zz "github.com/regen-network/regen-ledger/x/ecocredit/v3/zzverif"
)

const (
	TCreditType    = "regen.ecocredit.v1.CreditType"
	TClass         = "regen.ecocredit.v1.Class"
	TClassIssuer   = "regen.ecocredit.v1.ClassIssuer"
	TProject       = "regen.ecocredit.v1.Project"
	TBatch         = "regen.ecocredit.v1.Batch"
	TBatchBalance  = "regen.ecocredit.v1.BatchBalance"
	TBatchSupply   = "regen.ecocredit.v1.BatchSupply"
	TBatchContract = "regen.ecocredit.v1.BatchContract"
	TOriginTx      = "regen.ecocredit.v1.OriginTxIndex"
	TBasket        = "regen.ecocredit.basket.v1.Basket"
	TBasketClass   = "regen.ecocredit.basket.v1.BasketClass"
	TBasketBalance = "regen.ecocredit.basket.v1.BasketBalance"
	TSellOrder     = "regen.ecocredit.marketplace.v1.SellOrder"
	TMarket        = "regen.ecocredit.marketplace.v1.Market"
	TAllowedDenom  = "regen.ecocredit.marketplace.v1.AllowedDenom"

	// Precision is the only precision CreditType.Validate accepts.
	Precision = 6
)

func and(cs ...bool) bool {
	r := true
	for _, c := range cs {
		r = zz.And(r, c)
	}
	return r
}

// AmountOK: a stored credit amount: non-negative decimal, at most Precision places.
func AmountOK(s string) bool { return zz.DecStrOK(s, Precision) }

func CreditTypeOK(r *api.CreditType) bool { return r.Precision == Precision }

func ClassOK(r *api.Class) bool {
	return and(zz.OrmExists0(TCreditType, r.CreditTypeAbbrev), zz.Not(zz.BytesEq(r.Admin, nil)))
}

func ProjectOK(r *api.Project) bool {
	return and(zz.OrmExists0(TClass, r.ClassKey), zz.Not(zz.BytesEq(r.Admin, nil)))
}

// BatchOK: the batch's project and class exist, the class id embedded in the denom is the
// id of that class, and the supply row exists.
func BatchOK(r *api.Batch) bool {
	var p api.Project
	pe := zz.OrmRow0(TProject, &p, r.ProjectKey)
	var c api.Class
	ce := zz.OrmRow0(TClass, &c, p.ClassKey)
	return and(pe, ce, zz.StrEq(base.GetClassIDFromBatchDenom(r.Denom), c.Id),
		zz.OrmExists0(TBatchSupply, r.Key), zz.Not(zz.BytesEq(r.Issuer, nil)))
}

func BatchBalanceOK(r *api.BatchBalance) bool {
	return and(AmountOK(r.TradableAmount), AmountOK(r.RetiredAmount), AmountOK(r.EscrowedAmount),
		zz.OrmExists0(TBatch, r.BatchKey), zz.Not(zz.BytesEq(r.Address, nil)))
}

func BatchSupplyOK(r *api.BatchSupply) bool {
	return and(AmountOK(r.TradableAmount), AmountOK(r.RetiredAmount), AmountOK(r.CancelledAmount),
		zz.OrmExists0(TBatch, r.BatchKey))
}

func BasketBalanceOK(r *basketapi.BasketBalance) bool {
	var b api.Batch
	be := zz.OrmLookup0(TBatch, "Denom", &b, r.BatchDenom)
	return and(AmountOK(r.Balance), zz.OrmExists0(TBasket, r.BasketId), be)
}

func SellOrderOK(r *marketapi.SellOrder) bool {
	return and(AmountOK(r.Quantity), zz.QLt(zz.QInt(0), zz.QParse(r.Quantity)),
		zz.OrmExists0(TBatch, r.BatchKey), zz.OrmExists0(TMarket, r.MarketId), zz.Not(zz.BytesEq(r.Seller, nil)))
}

// Install registers the row invariants: each is assumed for every row of the pre-state
// the step reads (and for the rows those refer to).
func Install() {
	zz.OrmInvariant(TCreditType, CreditTypeOK)
	zz.OrmInvariant(TClass, ClassOK)
	zz.OrmInvariant(TProject, ProjectOK)
	zz.OrmInvariant(TBatch, BatchOK)
	zz.OrmInvariant(TBatchBalance, BatchBalanceOK)
	zz.OrmInvariant(TBatchSupply, BatchSupplyOK)
	zz.OrmInvariant(TBasketBalance, BasketBalanceOK)
	zz.OrmInvariant(TSellOrder, SellOrderOK)
	// sum invariants are instantiated as soon as the rows they relate have been read
	zz.OrmOnTouch(TBatchBalance, AssumeSums)
	zz.OrmOnTouch(TBatchSupply, AssumeSums)
	zz.OrmOnTouch(TBasketBalance, AssumeSums)
}

// AssumeSums instantiates the sum invariants on the rows the step has touched: for every
// touched supply row, the touched balances (and basket holdings) of that batch add up to
// at most the supply ("assume as remainder", DESIGN 4.2). Call it after the handler ran,
// when the read set is complete.
func AssumeSums() {
	zz.Assume(zz.AllTouched0(TBatchSupply, func(s *api.BatchSupply) bool {
		var bt api.Batch
		zz.OrmRow0(TBatch, &bt, s.BatchKey)
		held := zz.SumTouched0(TBatchBalance, func(r *api.BatchBalance) zz.Q {
			return zz.QIf(r.BatchKey == s.BatchKey, zz.QAdd(zz.QParse(r.TradableAmount), zz.QParse(r.EscrowedAmount)), q0())
		})
		inBaskets := zz.SumTouched0(TBasketBalance, func(r *basketapi.BasketBalance) zz.Q {
			return zz.QIf(zz.StrEq(r.BatchDenom, bt.Denom), zz.QParse(r.Balance), q0())
		})
		retired := zz.SumTouched0(TBatchBalance, func(r *api.BatchBalance) zz.Q {
			return zz.QIf(r.BatchKey == s.BatchKey, zz.QParse(r.RetiredAmount), q0())
		})
		return zz.And(zz.QLe(zz.QAdd(held, inBaskets), zz.QParse(s.TradableAmount)), zz.QLe(retired, zz.QParse(s.RetiredAmount)))
	}))
}

// ---- per-step deltas for a skolem batch

func q0() zz.Q { return zz.QInt(0) }

type SupplyDelta struct{ Tradable, Retired, Cancelled zz.Q }

func DeltaSupply(b uint64) SupplyDelta {
	return SupplyDelta{
		Tradable:  zz.SumDelta(TBatchSupply, func(r *api.BatchSupply) zz.Q { return zz.QIf(r.BatchKey == b, zz.QParse(r.TradableAmount), q0()) }),
		Retired:   zz.SumDelta(TBatchSupply, func(r *api.BatchSupply) zz.Q { return zz.QIf(r.BatchKey == b, zz.QParse(r.RetiredAmount), q0()) }),
		Cancelled: zz.SumDelta(TBatchSupply, func(r *api.BatchSupply) zz.Q { return zz.QIf(r.BatchKey == b, zz.QParse(r.CancelledAmount), q0()) }),
	}
}

type BalanceDelta struct{ Tradable, Escrowed, Retired zz.Q }

// DeltaBalances sums over all accounts' balances of batch b.
func DeltaBalances(b uint64) BalanceDelta {
	return BalanceDelta{
		Tradable: zz.SumDelta(TBatchBalance, func(r *api.BatchBalance) zz.Q { return zz.QIf(r.BatchKey == b, zz.QParse(r.TradableAmount), q0()) }),
		Escrowed: zz.SumDelta(TBatchBalance, func(r *api.BatchBalance) zz.Q { return zz.QIf(r.BatchKey == b, zz.QParse(r.EscrowedAmount), q0()) }),
		Retired:  zz.SumDelta(TBatchBalance, func(r *api.BatchBalance) zz.Q { return zz.QIf(r.BatchKey == b, zz.QParse(r.RetiredAmount), q0()) }),
	}
}

// DeltaAccount is the change of one account's balance of batch b.
func DeltaAccount(a []byte, b uint64) BalanceDelta {
	sel := func(r *api.BatchBalance) bool { return zz.And(r.BatchKey == b, zz.BytesEq(r.Address, a)) }
	return BalanceDelta{
		Tradable: zz.SumDelta(TBatchBalance, func(r *api.BatchBalance) zz.Q { return zz.QIf(sel(r), zz.QParse(r.TradableAmount), q0()) }),
		Escrowed: zz.SumDelta(TBatchBalance, func(r *api.BatchBalance) zz.Q { return zz.QIf(sel(r), zz.QParse(r.EscrowedAmount), q0()) }),
		Retired:  zz.SumDelta(TBatchBalance, func(r *api.BatchBalance) zz.Q { return zz.QIf(sel(r), zz.QParse(r.RetiredAmount), q0()) }),
	}
}

// BatchDenom is the denom of batch b (post-state row if it exists, else pre-state).
func BatchDenom(b uint64) string {
	var r1, r0 api.Batch
	e1 := zz.OrmRow1(TBatch, &r1, b)
	zz.OrmRow0(TBatch, &r0, b)
	return zz.SIf(e1, r1.Denom, r0.Denom)
}

// DeltaBaskets is the change of the total amount of batch denom held by all baskets.
func DeltaBaskets(denom string) zz.Q {
	return zz.SumDelta(TBasketBalance, func(r *basketapi.BasketBalance) zz.Q {
		return zz.QIf(zz.StrEq(r.BatchDenom, denom), zz.QParse(r.Balance), q0())
	})
}

// CheckC01 asserts the conservation step for skolem batch b and the amount part of I-row
// for every credit row written.
func CheckC01(b uint64) {
	ds := DeltaSupply(b)
	db := DeltaBalances(b)
	dk := DeltaBaskets(BatchDenom(b))
	zz.Assert(zz.QEq(ds.Tradable, zz.QAdd(zz.QAdd(db.Tradable, db.Escrowed), dk)), "C01 tradable supply delta = balances + escrow + baskets delta")
	zz.Assert(zz.QEq(ds.Retired, db.Retired), "C01 retired supply delta = retired balances delta")
	zz.Assert(zz.AllWritten(TBatchBalance, func(r *api.BatchBalance) bool {
		return and(AmountOK(r.TradableAmount), AmountOK(r.RetiredAmount), AmountOK(r.EscrowedAmount))
	}), "C01 written balances are non-negative with <= precision places")
	zz.Assert(zz.AllWritten(TBatchSupply, func(r *api.BatchSupply) bool {
		return and(AmountOK(r.TradableAmount), AmountOK(r.RetiredAmount), AmountOK(r.CancelledAmount))
	}), "C01 written supplies are non-negative with <= precision places")
	zz.Assert(zz.AllWritten(TBasketBalance, func(r *basketapi.BasketBalance) bool { return AmountOK(r.Balance) }),
		"C01 written basket balances are non-negative with <= precision places")
}

// CheckC02 asserts that the issued total of batch b changed by exactly `issued`.
func CheckC02(b uint64, issued zz.Q) {
	ds := DeltaSupply(b)
	zz.Assert(zz.QEq(zz.QAdd(zz.QAdd(ds.Tradable, ds.Retired), ds.Cancelled), issued), "C02 tradable+retired+cancelled changes only by issuance")
	var r0, r1 api.Batch
	e0 := zz.OrmRow0(TBatch, &r0, b)
	e1 := zz.OrmRow1(TBatch, &r1, b)
	zz.Assert(zz.Implies(e0, e1), "C02 batches are never deleted")
	zz.Assert(zz.Implies(zz.And(e0, zz.Not(r0.Open)), zz.And(zz.Not(r1.Open), zz.QEq(issued, q0()))), "C02 a sealed batch stays sealed and its total never changes")
}

// CheckC04 asserts monotonicity of retired/cancelled quantities for skolem (a, b).
func CheckC04(a []byte, b uint64) {
	ds := DeltaSupply(b)
	da := DeltaAccount(a, b)
	zz.Assert(zz.QLe(q0(), da.Retired), "C04 an account's retired balance never decreases")
	zz.Assert(zz.QLe(q0(), ds.Retired), "C04 retired supply never decreases")
	zz.Assert(zz.QLe(q0(), ds.Cancelled), "C04 cancelled supply never decreases")
}

// CheckC03 asserts that account a (not a signer) did not lose credits of batch b or coins
// of denom d.
func CheckC03(a []byte, b uint64, d string) {
	da := DeltaAccount(a, b)
	zz.Assert(zz.QLe(q0(), zz.QAdd(da.Tradable, da.Escrowed)), "C03 a non-signer's tradable+escrowed credits do not decrease")
	zz.Assert(zz.QLe(zz.BankBal0(a, d), zz.BankBal1(a, d)), "C03 a non-signer's coins do not decrease")
}
