//go:build verif

package keeper

import (
	"github.com/cosmos/cosmos-sdk/codec"
	codectypes "github.com/cosmos/cosmos-sdk/codec/types"
	sdk "github.com/cosmos/cosmos-sdk/types"
	capabilitytypes "github.com/cosmos/cosmos-sdk/x/capability/types"
	icatypes "github.com/cosmos/ibc-go/v7/modules/apps/27-interchain-accounts/types"
	host "github.com/cosmos/ibc-go/v7/modules/core/24-host"

	types "github.com/regen-network/regen-ledger/x/intertx/types/v1"
	zz "github.com/regen-network/regen-ledger/x/intertx/zzverif"
)

// C20: SubmitTx forwards exactly the owner's message over the owner's own port.
func VerifHarness_C20_SubmitTx() {
	k := NewKeeper(zz.Recorder("cdc").(codec.BinaryCodec), zz.Recorder("ica").(ICAControllerKeeper), zz.Recorder("cap").(CapabilityKeeper))
	// the inner message: any sdk.Msg with arbitrary field contents
	inner := &types.MsgRegisterAccount{}
	zz.NondetInto("inner", inner)
	before := zz.DeepSnapshot(inner)
	msg := &types.MsgSubmitTx{Owner: zz.NondetAtom("owner"), ConnectionId: zz.NondetAtom("connection"), Msg: &codectypes.Any{}}
	zz.SetUnexportedField(msg.Msg, "cachedValue", sdk.Msg(inner))
	zz.Assume(msg.ValidateBasic() == nil)

	ctx := zz.Context()
	blockTime := sdk.UnwrapSDKContext(ctx).BlockTime()
	// Time.UnixNano is only defined for instants between the years 1678 and 2262
	zz.AssumeRange(blockTime.Unix(), -9_214_000_000, 9_223_000_000)
	_, err := k.SubmitTx(ctx, msg)

	sends := zz.CallCount("ica.SendTx")
	zz.Assert(sends <= 1, "C20 at most one packet is sent")
	zz.Assert(zz.DeepEqual(before, inner), "C20 the inner message is not modified")
	zz.Assert(zz.CallCount("ica.RegisterInterchainAccount") == 0, "C20 SubmitTx registers nothing")
	if sends == 1 {
		i := zz.CallIndex("ica.SendTx", 0)
		// the lookups that must have reported found, in order, before the send
		zz.Assert(zz.CallCount("ica.GetActiveChannelID") == 1 && zz.CallCount("cap.GetCapability") == 1, "C20 a send is preceded by one channel and one capability lookup")
		var conn, port, lookupConn, lookupPort string
		zz.CallArg(i, 2, &conn)
		zz.CallArg(i, 3, &port)
		li := zz.CallIndex("ica.GetActiveChannelID", 0)
		zz.CallArg(li, 1, &lookupConn)
		zz.CallArg(li, 2, &lookupPort)
		wantPort, perr := icatypes.NewControllerPortID(msg.Owner)
		zz.Assert(perr == nil, "C20 the owner has a port id")
		zz.Assert(zz.StrEq(port, wantPort), "C20 the packet goes over the controller port of msg.Owner")
		zz.Assert(zz.StrEq(lookupPort, wantPort), "C20 the active channel is looked up on the owner's port")
		zz.Assert(zz.And(zz.StrEq(conn, msg.ConnectionId), zz.StrEq(lookupConn, msg.ConnectionId)), "C20 lookup and send use the connection of the message")
		var pd icatypes.InterchainAccountPacketData
		zz.CallArg(i, 4, &pd)
		zz.Assert(pd.Type == icatypes.EXECUTE_TX, "C20 the packet is an EXECUTE_TX packet")
		zz.Assert(zz.SerializedExactly(pd.Data, inner), "C20 the packet data is the serialisation of exactly the supplied message")
		var timeout uint64
		zz.CallArg(i, 5, &timeout)
		want := blockTime.UnixNano() + 60_000_000_000
		zz.Assert(timeout == uint64(want), "C20 the timeout is one minute after block time")
		// nothing is sent unless both lookups reported found, and the capability used is the
		// one that was looked up
		var chFound, capFound bool
		zz.CallRet(li, 1, &chFound)
		ci := zz.CallIndex("cap.GetCapability", 0)
		zz.CallRet(ci, 1, &capFound)
		zz.Assert(chFound, "C20 nothing is sent when no active channel exists")
		zz.Assert(capFound, "C20 nothing is sent when the channel capability does not exist")
		var usedCap, gotCap *capabilitytypes.Capability
		zz.CallArg(i, 1, &usedCap)
		zz.CallRet(ci, 0, &gotCap)
		zz.Assert(zz.And(usedCap != nil, zz.SameObject(usedCap, gotCap)), "C20 the send uses the capability that was looked up")
		var chanID, capName string
		zz.CallRet(li, 0, &chanID)
		zz.CallArg(ci, 1, &capName)
		zz.Assert(zz.StrEq(capName, host.ChannelCapabilityPath(wantPort, chanID)), "C20 the capability looked up is that of the owner's port and the active channel")
		zz.Reach("sent")
	} else {
		zz.Assert(err != nil, "C20 when nothing is sent the message fails")
		zz.Reach("not sent")
	}
	signers := msg.GetSigners()
	owner, _ := sdk.AccAddressFromBech32(msg.Owner)
	zz.Assert(len(signers) == 1 && zz.BytesEq(signers[0], owner), "C20 the owner is the only required signer")
}

// C20: two owners share a port only if they are the same owner.
func VerifHarness_C20_PortPerOwner() {
	o1, o2 := zz.NondetAtom("owner1"), zz.NondetAtom("owner2")
	p1, e1 := icatypes.NewControllerPortID(o1)
	p2, e2 := icatypes.NewControllerPortID(o2)
	if e1 == nil && e2 == nil {
		zz.Assert(zz.Implies(zz.StrEq(p1, p2), zz.StrEq(o1, o2)), "C20 distinct owners have distinct controller ports")
		zz.Reach("ports")
	}
}
