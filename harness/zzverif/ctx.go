//go:build verif

package zzverif

import "context"

// Context returns the sdk context of the step as a context.Context.
func Context() context.Context { return native().Ctx().(context.Context) }
