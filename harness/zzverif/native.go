//go:build verif

package zzverif

import (
	"encoding/json"
	"fmt"
	"math/big"
	"os"
	"reflect"
	"regexp"
	"strings"
	"time"
)

type rat = big.Rat

var sdkDenomRe = regexp.MustCompile(`^[a-zA-Z][a-zA-Z0-9/:._-]{2,127}$`)

type assumeFailed struct{}

// Result of a native (replay) run.
var (
	Failed   []string
	Reached  []string
	cex      map[string]string
	cexBnd   map[string]int
	cexReady bool
)

type cexFile struct {
	Model  map[string]string `json:"model"`
	Bounds map[string]int    `json:"bounds"`
}

func loadCex() {
	if cexReady {
		return
	}
	cexReady = true
	cex = map[string]string{}
	cexBnd = map[string]int{}
	path := os.Getenv("VERIF_CEX")
	if path == "" {
		return
	}
	data, err := os.ReadFile(path)
	if err != nil {
		panic(err)
	}
	var f cexFile
	if err := json.Unmarshal(data, &f); err != nil {
		panic(err)
	}
	cex = f.Model
	if f.Bounds != nil {
		cexBnd = f.Bounds
	}
}

// SetCex installs a counterexample directly (used by generated replay tests).
func SetCex(model map[string]string, bounds map[string]int) {
	cexReady = true
	cex = model
	cexBnd = bounds
	if cexBnd == nil {
		cexBnd = map[string]int{}
	}
	Failed = nil
	Reached = nil
}

// Run executes a harness natively and reports (assumption held, failed assertions, panic).
func Run(h func()) (ok bool, failed []string, panicked interface{}) {
	Failed = nil
	ok = true
	defer func() {
		if r := recover(); r != nil {
			if _, is := r.(assumeFailed); is {
				ok = false
				failed = Failed
				return
			}
			panicked = r
			failed = Failed
		}
	}()
	h()
	return true, Failed, nil
}

func failed(name string)  { Failed = append(Failed, name) }
func reached(name string) { Reached = append(Reached, name) }

func cexBound(name string, def int) int {
	loadCex()
	if v, ok := cexBnd[name]; ok {
		return v
	}
	return def
}

func cexRaw(label string) (string, bool) {
	loadCex()
	v, ok := cex[label]
	return v, ok
}

// parseSMTInt parses "5", "(- 5)".
func parseSMTInt(s string) *big.Int {
	s = strings.TrimSpace(s)
	neg := false
	if strings.HasPrefix(s, "(-") {
		neg = true
		s = strings.TrimSuffix(strings.TrimSpace(s[2:]), ")")
	}
	s = strings.TrimSpace(s)
	if i := strings.IndexByte(s, '.'); i >= 0 {
		s = s[:i]
	}
	v, ok := new(big.Int).SetString(s, 10)
	if !ok {
		return big.NewInt(0)
	}
	if neg {
		v.Neg(v)
	}
	return v
}

// parseSMTReal parses "5.0", "(- 5.0)", "(/ 1.0 3.0)", "(- (/ 1.0 3.0))".
func parseSMTReal(s string) *big.Rat {
	s = strings.TrimSpace(s)
	if strings.HasPrefix(s, "(-") {
		inner := strings.TrimSpace(s[2 : len(s)-1])
		return new(big.Rat).Neg(parseSMTReal(inner))
	}
	if strings.HasPrefix(s, "(/") {
		inner := strings.TrimSpace(s[2 : len(s)-1])
		// split into two operands at top level
		depth := 0
		for i := 0; i < len(inner); i++ {
			switch inner[i] {
			case '(':
				depth++
			case ')':
				depth--
			case ' ':
				if depth == 0 {
					a := parseSMTReal(inner[:i])
					b := parseSMTReal(inner[i+1:])
					if b.Sign() == 0 {
						return new(big.Rat)
					}
					return new(big.Rat).Quo(a, b)
				}
			}
		}
	}
	r, ok := new(big.Rat).SetString(s)
	if !ok {
		return new(big.Rat)
	}
	return r
}

func cexInt(label string) int64 {
	v, ok := cexRaw(label)
	if !ok {
		return 0
	}
	b := parseSMTInt(v)
	if b.IsInt64() {
		return b.Int64()
	}
	return int64(b.Uint64())
}

func cexBool(label string) bool {
	v, _ := cexRaw(label)
	return strings.TrimSpace(v) == "true"
}

func cexStr(label string) string {
	v, ok := cexRaw(label)
	if !ok {
		return ""
	}
	if len(v) >= 2 && v[0] == '"' {
		var s string
		if err := json.Unmarshal([]byte(v), &s); err == nil {
			return s
		}
	}
	return v
}

func cexBytes(label string, n int) []byte {
	out := make([]byte, n)
	for i := range out {
		k := label
		if n > 1 {
			k = fmt.Sprintf("%s[%d]", label, i)
		}
		out[i] = byte(cexInt(k))
	}
	return out
}

// Filler lets a package provide values for types zzverif cannot construct itself
// (for example a decimal from sign/magnitude/exponent).
var Filler func(label string, ptr interface{}) bool

func cexInto(label string, ptr interface{}) {
	if Filler != nil && Filler(label, ptr) {
		return
	}
	if tp, ok := ptr.(*time.Time); ok {
		*tp = time.Unix(cexInt(label+"[0]"), cexInt(label+"[1]")).UTC()
		return
	}
	fill(label, reflect.ValueOf(ptr).Elem())
}

func fill(label string, v reflect.Value) {
	switch v.Kind() {
	case reflect.Bool:
		v.SetBool(cexBool(label))
	case reflect.Int, reflect.Int8, reflect.Int16, reflect.Int32, reflect.Int64:
		v.SetInt(cexInt(label))
	case reflect.Uint, reflect.Uint8, reflect.Uint16, reflect.Uint32, reflect.Uint64:
		v.SetUint(uint64(cexInt(label)))
	case reflect.String:
		v.SetString(cexStr(label))
	case reflect.Struct:
		if Filler != nil && v.CanAddr() && Filler(label, v.Addr().Interface()) {
			return
		}
		for i := 0; i < v.NumField(); i++ {
			f := v.Type().Field(i)
			if !v.Field(i).CanSet() || strings.HasPrefix(f.Name, "XXX_") {
				continue
			}
			fill(label+"."+f.Name, v.Field(i))
		}
	case reflect.Ptr:
		if _, isNil := cexRaw(label + ".isnil"); isNil {
			return
		}
		if v.Type().Elem().Kind() == reflect.Struct {
			nv := reflect.New(v.Type().Elem())
			fill(label, nv.Elem())
			v.Set(nv)
		}
	case reflect.Slice:
		if v.Type().Elem().Kind() == reflect.Uint8 {
			v.SetBytes([]byte(cexStr(label)))
			return
		}
		n := int(cexInt(label + ".len"))
		s := reflect.MakeSlice(v.Type(), n, n)
		for i := 0; i < n; i++ {
			fill(fmt.Sprintf("%s[%d]", label, i), s.Index(i))
		}
		if n > 0 {
			v.Set(s)
		}
	}
}

// ---- Q

func mk(r *big.Rat) Q { return Q{r} }

func toRat(v interface{}) *big.Rat {
	switch u := v.(type) {
	case Q:
		return u.p
	case int:
		return new(big.Rat).SetInt64(int64(u))
	case int64:
		return new(big.Rat).SetInt64(u)
	case int32:
		return new(big.Rat).SetInt64(int64(u))
	case uint32:
		return new(big.Rat).SetInt64(int64(u))
	case uint64:
		return new(big.Rat).SetInt(new(big.Int).SetUint64(u))
	case *big.Int:
		return new(big.Rat).SetInt(u)
	case fmt.Stringer:
		return parseDec(u.String())
	}
	rv := reflect.ValueOf(v)
	if rv.Kind() == reflect.Struct && rv.CanAddr() {
		if s, ok := rv.Addr().Interface().(fmt.Stringer); ok {
			return parseDec(s.String())
		}
	}
	if rv.Kind() == reflect.Struct {
		p := reflect.New(rv.Type())
		p.Elem().Set(rv)
		if s, ok := p.Interface().(fmt.Stringer); ok {
			return parseDec(s.String())
		}
	}
	panic(fmt.Sprintf("zzverif: no rational value for %T", v))
}

func parseDec(s string) *big.Rat {
	if s == "" {
		return new(big.Rat)
	}
	r, ok := new(big.Rat).SetString(s)
	if !ok {
		return new(big.Rat)
	}
	return r
}

func QOf(v interface{}) Q { return mk(toRat(v)) }
func QInt(v int64) Q      { return mk(new(big.Rat).SetInt64(v)) }
func QAdd(a, b Q) Q       { return mk(new(big.Rat).Add(a.p, b.p)) }
func QSub(a, b Q) Q       { return mk(new(big.Rat).Sub(a.p, b.p)) }
func QMul(a, b Q) Q       { return mk(new(big.Rat).Mul(a.p, b.p)) }
func QDiv(a, b Q) Q {
	if b.p.Sign() == 0 {
		return mk(new(big.Rat))
	}
	return mk(new(big.Rat).Quo(a.p, b.p))
}
func QNeg(a Q) Q { return mk(new(big.Rat).Neg(a.p)) }
func QAbs(a Q) Q { return mk(new(big.Rat).Abs(a.p)) }
func QFloor(a Q) Q {
	n := new(big.Int)
	m := new(big.Int)
	n.DivMod(a.p.Num(), a.p.Denom(), m)
	return mk(new(big.Rat).SetInt(n))
}
func QTrunc(a Q) Q {
	n := new(big.Int).Quo(a.p.Num(), a.p.Denom())
	return mk(new(big.Rat).SetInt(n))
}
func QPow10(k int) Q {
	if k >= 0 {
		return mk(new(big.Rat).SetInt(new(big.Int).Exp(big.NewInt(10), big.NewInt(int64(k)), nil)))
	}
	return mk(new(big.Rat).SetFrac(big.NewInt(1), new(big.Int).Exp(big.NewInt(10), big.NewInt(int64(-k)), nil)))
}
func QEq(a, b Q) bool   { return a.p.Cmp(b.p) == 0 }
func QLt(a, b Q) bool   { return a.p.Cmp(b.p) < 0 }
func QLe(a, b Q) bool   { return a.p.Cmp(b.p) <= 0 }
func QIsInt(a Q) bool   { return a.p.IsInt() }
func QParse(s string) Q { return mk(parseDec(s)) }

// DecStrOK: s is "" or a finite non-negative plain decimal with at most places decimals.
func DecStrOK(s string, places uint32) bool {
	if s == "" {
		return true
	}
	r, ok := new(big.Rat).SetString(s)
	if !ok || r.Sign() < 0 {
		return false
	}
	ls := strings.ToLower(s)
	if strings.ContainsAny(ls, "naif") {
		return false
	}
	exp := 0
	if i := strings.IndexByte(ls, 'e'); i >= 0 {
		fmt.Sscanf(ls[i+1:], "%d", &exp)
		ls = ls[:i]
	}
	if i := strings.IndexByte(ls, '.'); i >= 0 {
		exp -= len(ls) - i - 1
	}
	return -exp <= int(places)
}

func DecPlain(s string) bool { return !strings.ContainsAny(s, "eE") }

// ---- accessors for package-specific fillers (replay)

func CexHas(label string) bool   { _, ok := cexRaw(label); return ok }
func CexBool(label string) bool  { return cexBool(label) }
func CexInt(label string) int64  { return cexInt(label) }
func CexStr(label string) string { return cexStr(label) }
func CexBig(label string) *big.Int {
	v, ok := cexRaw(label)
	if !ok {
		return big.NewInt(0)
	}
	return parseSMTInt(v)
}
func CexRat(label string) *big.Rat {
	v, ok := cexRaw(label)
	if !ok {
		return new(big.Rat)
	}
	return parseSMTReal(v)
}
