//go:build verif

package zzverif

import "time"

func TimeLt(a, b time.Time) bool { return a.Before(b) }
func TimeLe(a, b time.Time) bool { return !a.After(b) }
func TimeEq(a, b time.Time) bool { return a.Equal(b) }
