//go:build verif

// Package zzverif holds the primitives harnesses are written against. Under the symbolic
// engine every function here is intercepted; compiled natively (replay) they read the
// counterexample file named by VERIF_CEX.
package zzverif

// Q is an exact rational number.
type Q struct{ p *rat }

func NondetBool(label string) bool             { return cexBool(label) }
func NondetU64(label string) uint64            { return uint64(cexInt(label)) }
func NondetI64(label string) int64             { return cexInt(label) }
func NondetU32(label string) uint32            { return uint32(cexInt(label)) }
func NondetI32(label string) int32             { return int32(cexInt(label)) }
func NondetU8(label string) uint8              { return uint8(cexInt(label)) }
func NondetInt(label string) int               { return int(cexInt(label)) }
func NondetRange(label string, lo, hi int) int { return int(cexInt(label)) }
func NondetChoice(label string, n int) int     { return int(cexInt(label)) }
func Bound(name string, def int) int           { return cexBound(name, def) }
func NondetAtom(label string) string           { return cexStr(label) }
func NondetBytesAtom(label string) []byte      { return []byte(cexStr(label)) }
func NondetString(label string, n int) string  { return string(cexBytes(label, n)) }
func NondetBytes(label string, n int) []byte   { return cexBytes(label, n) }
func NondetInto(label string, ptr interface{}) { cexInto(label, ptr) }

func Assume(c bool) {
	if !c {
		panic(assumeFailed{})
	}
}
func Assert(c bool, name string) {
	if !c {
		failed(name)
	}
}
func Reach(name string)           { reached(name) }
func Fail(name string)            { failed(name) }
func And(a, b bool) bool          { return a && b }
func Or(a, b bool) bool           { return a || b }
func Not(a bool) bool             { return !a }
func Implies(a, b bool) bool      { return !a || b }
func Symbolic() bool              { return false }
func StrEq(a, b string) bool      { return a == b }
func BytesEq(a, b []byte) bool    { return string(a) == string(b) }
func Note(s string)               {}
func Label(l string, v interface{}) {}
