//go:build verif

// Package zzverif holds the primitives harnesses are written against. Under the symbolic
// engine every function here is intercepted; compiled natively (replay) they read the
// counterexample file named by VERIF_CEX.
package zzverif

// Q is an exact rational number.
type Q struct{ p *rat }

func NondetBool(label string) bool             { return cexBool(label) }
func NondetU64(label string) uint64            { return uint64(cexInt(label)) }
func NondetI64(label string) int64             { return cexInt(label) }
func NondetU32(label string) uint32            { return uint32(cexInt(label)) }
func NondetI32(label string) int32             { return int32(cexInt(label)) }
func NondetU8(label string) uint8              { return uint8(cexInt(label)) }
func NondetInt(label string) int               { return int(cexInt(label)) }
func NondetRange(label string, lo, hi int) int { return int(cexInt(label)) }
func NondetChoice(label string, n int) int     { return int(cexInt(label)) }
func Bound(name string, def int) int           { return cexBound(name, def) }
func NondetAtom(label string) string           { return cexStr(label) }
func NondetBytesAtom(label string) []byte      { return []byte(cexStr(label)) }
func NondetString(label string, n int) string  { return string(cexBytes(label, n)) }
func NondetBytes(label string, n int) []byte   { return cexBytes(label, n) }
func NondetInto(label string, ptr interface{}) { cexInto(label, ptr) }

func Assume(c bool) {
	if !c {
		panic(assumeFailed{})
	}
}
func Assert(c bool, name string) {
	if !c {
		failed(name)
	}
}
func Reach(name string)             { reached(name) }
func Fail(name string)              { failed(name) }
func And(a, b bool) bool            { return a && b }
func Or(a, b bool) bool             { return a || b }
func Not(a bool) bool               { return !a }
func Implies(a, b bool) bool        { return !a || b }
func Symbolic() bool                { return false }
func StrEq(a, b string) bool        { return a == b }
func BytesEq(a, b []byte) bool      { return string(a) == string(b) }
func Note(s string)                 {}
func Label(l string, v interface{}) {}

// ---- environment (ORM tables, bank, context). Symbolically these are models with an
// arbitrary initial content; natively they are served by the module's replay support
// through the Native hook.

func OrmStore(name string) interface{}                  { return native().Store(name) }
func BankKeeper() interface{}                           { return native().Bank() }
func ModuleAddr(name string) []byte                     { return native().ModuleAddr(name) }
func IsModuleAccount(addr []byte) bool                  { return native().IsModuleAccount(addr) }
func OrmInvariant(table string, f interface{})          { native().Invariant(table, f) }
func OrmBegin()                                         { native().Begin() }
func OrmRollbackIf(c bool)                              { native().RollbackIf(c) }
func OrmExists0(table string, keys ...interface{}) bool { return native().Exists(0, table, keys) }
func OrmExists1(table string, keys ...interface{}) bool { return native().Exists(1, table, keys) }
func OrmRow0(table string, dst interface{}, keys ...interface{}) bool {
	return native().Row(0, table, dst, keys)
}
func OrmRow1(table string, dst interface{}, keys ...interface{}) bool {
	return native().Row(1, table, dst, keys)
}
func OrmLookup0(table, index string, dst interface{}, vals ...interface{}) bool {
	return native().Lookup(0, table, index, dst, vals)
}
func OrmLookup1(table, index string, dst interface{}, vals ...interface{}) bool {
	return native().Lookup(1, table, index, dst, vals)
}
func OrmSeq0(table string) uint64                  { return native().Seq0(table) }
func OrmWrites(table string) int                   { return native().Writes(table) }
func SumDelta(table string, f interface{}) Q       { return native().Sum("delta", table, f) }
func SumTouched0(table string, f interface{}) Q    { return native().Sum("touched0", table, f) }
func AllWritten(table string, f interface{}) bool  { return native().All("written", table, f) }
func AllTouched0(table string, f interface{}) bool { return native().All("touched0", table, f) }
func BankBal0(addr []byte, denom string) Q         { return native().BankBal(0, addr, denom) }
func BankBal1(addr []byte, denom string) Q         { return native().BankBal(1, addr, denom) }
func BankSupply0(denom string) Q                   { return native().BankSupply(0, denom) }
func BankSupply1(denom string) Q                   { return native().BankSupply(1, denom) }
func BankCalls() int                               { return native().BankCalls() }
func BankBlocked(addr []byte) bool                 { return native().BankBlocked(addr) }
func EventCount() int                              { return native().EventCount() }
func EventAt(i int, dst interface{}) bool          { return native().EventAt(i, dst) }
func QIf(c bool, a, b Q) Q {
	if c {
		return a
	}
	return b
}
func BIf(c, a, b bool) bool {
	if c {
		return a
	}
	return b
}
func HasPrefixStr(s, p string) bool { return len(s) >= len(p) && s[:len(p)] == p }

// NativeEnv is what a module's replay support provides.
type NativeEnv interface {
	Store(name string) interface{}
	Bank() interface{}
	Ctx() interface{}
	ModuleAddr(name string) []byte
	IsModuleAccount(addr []byte) bool
	Invariant(table string, f interface{})
	Begin()
	RollbackIf(c bool)
	Exists(when int, table string, keys []interface{}) bool
	Row(when int, table string, dst interface{}, keys []interface{}) bool
	Lookup(when int, table, index string, dst interface{}, vals []interface{}) bool
	Seq0(table string) uint64
	Writes(table string) int
	Sum(kind, table string, f interface{}) Q
	All(kind, table string, f interface{}) bool
	BankBal(when int, addr []byte, denom string) Q
	BankSupply(when int, denom string) Q
	BankCalls() int
	BankBlocked(addr []byte) bool
	EventCount() int
	EventAt(i int, dst interface{}) bool
}

// Native is installed by the module's replay support before a harness runs natively.
var Native NativeEnv

func native() NativeEnv {
	if Native == nil {
		panic("zzverif: native environment not installed (symbolic-only harness)")
	}
	return Native
}

// MkQ lets replay support build Q values.
func MkQ(r *rat) Q { return Q{r} }

// Rat exposes the rational behind a Q.
func (q Q) Rat() *rat { return q.p }

func SIf(c bool, a, b string) string {
	if c {
		return a
	}
	return b
}

// Merged evaluates a side-effect-free predicate. Symbolically all of its paths are explored
// locally and merged into one formula (no path forks); natively it is just a call.
func Merged(f func() bool) bool { return f() }

// OrmOnTouch registers a hook run whenever the step reads or writes a new row of the table
// (symbolic runs only; natively invariants are checked once on the whole pre-state).
func OrmOnTouch(table string, f func()) {}

// PulsarToGogo / GogoToPulsar copy a message field by field between the two generated
// structs of the same proto message (natively through the wire format).
func PulsarToGogo(dst, src interface{}) { native2().Convert(dst, src) }
func GogoToPulsar(dst, src interface{}) { native2().Convert(dst, src) }

// Converter is the optional part of the native support that converts messages.
type Converter interface{ Convert(dst, src interface{}) }

func native2() Converter {
	c, ok := Native.(Converter)
	if !ok {
		panic("zzverif: native message conversion not installed")
	}
	return c
}

// ValidSdkDenom: the string is accepted by sdk.ValidateDenom.
func ValidSdkDenom(s string) bool { return sdkDenomRe.MatchString(s) }

// B58String returns the base58check encoding of payload with the given version byte.
func B58String(payload []byte, version byte) string { return B58Encode(payload, version) }

// B58Encode is installed by replay support of modules that use base58.
var B58Encode = func(payload []byte, version byte) string { panic("zzverif: base58 encoder not installed") }

// MergeCallee asks the symbolic engine to summarise the named pure function of the code
// under test by exploring its paths locally and merging them (errors keep a symbolic
// nil-ness). The function is still executed from /repo's SSA. No effect natively.
func MergeCallee(fullName string) {}

// ---- recording stubs (symbolic runs; natively provided by the module's replay support)

func Recorder(name string) interface{}       { return native3().Recorder(name) }
func CallCount(name string) int              { return native3().CallCount(name) }
func CallIndex(name string, k int) int       { return native3().CallIndex(name, k) }
func CallArg(call, arg int, dst interface{}) { native3().CallArg(call, arg, dst) }
func SameObject(a, b interface{}) bool       { return native3().SameObject(a, b) }

// CallRet copies result number ret of recorded call number call into dst.
func CallRet(call, ret int, dst interface{}) {
	if s, ok := Native.(interface {
		CallRet(call, ret int, dst interface{})
	}); ok {
		s.CallRet(call, ret, dst)
		return
	}
	panic("zzverif: native stub support not installed")
}
func SerializedExactly(data []byte, m interface{}) bool { return native3().SerializedExactly(data, m) }
func SetUnexportedField(ptr interface{}, f string, v interface{}) {
	native3().SetUnexportedField(ptr, f, v)
}
func DeepSnapshot(v interface{}) interface{} { return native3().DeepSnapshot(v) }
func DeepEqual(a, b interface{}) bool        { return native3().DeepEqual(a, b) }

type StubSupport interface {
	Recorder(name string) interface{}
	CallCount(name string) int
	CallIndex(name string, k int) int
	CallArg(call, arg int, dst interface{})
	SameObject(a, b interface{}) bool
	SerializedExactly(data []byte, m interface{}) bool
	SetUnexportedField(ptr interface{}, f string, v interface{})
	DeepSnapshot(v interface{}) interface{}
	DeepEqual(a, b interface{}) bool
}

func native3() StubSupport {
	s, ok := Native.(StubSupport)
	if !ok {
		panic("zzverif: native stub support not installed")
	}
	return s
}

// AssumeRange assumes lo <= v <= hi.
func AssumeRange(v, lo, hi int64) { Assume(lo <= v && v <= hi) }

// NoMerge disables callee merging for this run (the callee's paths, including the
// big.Int buffer-reuse alternatives, are then explored one by one).
func NoMerge() {}

// AllWritten2 folds f(pre, preExists, post, postExists) over the rows written by the step.
func AllWritten2(table string, f interface{}) bool { return native().All("written2", table, f) }

// OrmDeletes counts the rows of the table deleted by the step.
func OrmDeletes(table string) int { return native().Writes("deletes:" + table) }

// UFStub is a stub whose results are deterministic functions of its arguments and
// otherwise arbitrary (for example: every possible hash function).
func UFStub(name string) interface{} { return native3().Recorder("uf:" + name) }

// AssumeLoopBound states that no loop of the named function of the code under test
// iterates more than n times in the states considered (an assumption on the pre-state,
// counted in the evidence).
func AssumeLoopBound(fn string, n int) {}

// QIsInt, DecPlain etc. are defined in native.go.

// StrLess is the byte-wise order of strings (the order of ORM string keys).
func StrLess(a, b string) bool { return a < b }

// Summarize asks the symbolic engine to replace calls of the named pure function by
// uninterpreted functions of the scalar leaves of its arguments (same inputs, same
// outputs; nothing else is assumed). What the function computes is the subject of the
// harnesses that execute it. No effect natively.
func Summarize(fullName string) {}

// CallUnexported executes the unexported function pkgPath.name of /repo (the package must be
// imported by the harness so that it is loaded) and returns its last result (engine only).
func CallUnexported(pkgPath, name string, args ...interface{}) interface{} {
	panic("zzverif.CallUnexported: symbolic execution only")
}

// Concretize splits the execution over the values lo..hi of v (one path per value, each
// with v constant); a value outside the range is reported as an unwinding failure, never
// silently dropped. Natively the identity.
func Concretize(v, lo, hi int) int { return v }

// ---- determinism (C10): self-composition and per-process state

// EffectsSnapshot keeps the effects (table writes, bank writes, events) of the execution
// since OrmBegin; SameEffects compares the effects since OrmBegin with the kept ones.
func EffectsSnapshot()  { nativeDet().EffectsSnapshot() }
func SameEffects() bool { return nativeDet().SameEffects() }

// ProcessState marks the memory reachable from v (the keeper) as per-process state.
func ProcessState(v interface{}) {}

// HiddenWrites counts writes to per-process state (package-level variables, memory allocated
// by package initialisers, memory marked with ProcessState) on this execution;
// WallClockReads counts time.Now/time.Since calls, go statements and selects; MapRanges
// counts iterations over maps with more than one entry (each order is explored).
func HiddenWrites() int       { return 0 }
func HiddenWriteName() string { return "" }
func WallClockReads() int     { return 0 }
func MapRanges() int          { return 0 }

type detSupport interface {
	EffectsSnapshot()
	SameEffects() bool
}

func nativeDet() detSupport {
	s, ok := Native.(detSupport)
	if !ok {
		panic("zzverif: native determinism support not installed")
	}
	return s
}
