#!/bin/bash
# seedtest.sh <seeded dir name> <property> [tier]: apply a seeded defect to /repo, run the
# check (evidence goes to a scratch directory, never to /verif/evidence), undo, and record
# the outcome in the seed's meta.json.
d=/verif/seeded/$1; p=$2; t=${3:-quick}
cd /repo || exit 9
git apply --check $d/patch.diff || { echo "patch does not apply"; exit 9; }
git apply $d/patch.diff
log=/tmp/seedtest_${1}_${p}_${t}.log
cd /verif; VERIF_EVIDENCE_DIR=/tmp/seed-evidence ./check $p --tier $t > $log 2>&1; rc=$?
git -C /repo checkout -- .
echo "seed=$1 property=$p tier=$t exit=$rc"; grep -a "VIOLATION\|INCONCLUSIVE\|tier=" $log | cut -c1-300 | head -8
python3 - "$d/meta.json" "$p" "$t" "$rc" "$log" "${VERIF_ONLY_PKG:-}" <<'PY'
import json, sys, re
meta, p, t, rc, log, only = sys.argv[1:7]
m = json.load(open(meta))
lines = [l.rstrip()[:400] for l in open(log, errors="replace") if re.search(r"VIOLATION|INCONCLUSIVE|tier=", l)]
entry = {"check": "./check %s --tier %s" % (p, t) + (" (VERIF_ONLY_PKG=%s)" % only if only else ""), "exit": int(rc),
         "caught": int(rc) == 1, "output": lines[:6]}
runs = [r for r in m.get("checks_run", []) if r.get("check") != entry["check"]]
runs.append(entry)
m["checks_run"] = runs
json.dump(m, open(meta, "w"), indent=1)
PY
