#!/bin/bash
# seedtest.sh <seeded dir name> <property> [tier]: apply a seeded defect to /repo, run the check, undo.
d=/verif/seeded/$1; p=$2; t=${3:-quick}
cd /repo || exit 9
git apply --check $d/patch.diff || { echo "patch does not apply"; exit 9; }
git apply $d/patch.diff
cd /verif; ./check $p --tier $t > /tmp/seedtest_$1_$p_$t.log 2>&1; rc=$?
git -C /repo checkout -- . 
echo "seed=$1 property=$p tier=$t exit=$rc"; grep -a "VIOLATION\|INCONCLUSIVE\|tier=" /tmp/seedtest_$1_$p_$t.log | head -8
