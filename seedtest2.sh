#!/bin/bash
# seedtest2.sh <seed dir name> <property> [tier] [only-pkg-regex]
# Development variant of seedtest.sh: applies the seeded change in a scratch worktree of /repo's
# HEAD (VERIF_REPO), so /repo itself stays untouched and several seeds can be tried in parallel;
# evidence goes to a scratch directory. The outcome is written to /tmp/seedres/<seed>_<prop>_<tier>.json
# and merged into the seed's meta.json by `python3 -m checklib.seedmatrix --merge`.
# (The registered procedure - git -C /repo apply; ./check; git -C /repo checkout -- . - is seedtest.sh.)
s=$1; p=$2; t=${3:-quick}; only=${4:-}
here=$(cd $(dirname $0) && pwd)
seeddir=/verif/seeded/$s
wt=/tmp/seedrun/${s}_${p}_${t}_$$
mkdir -p /tmp/seedrun /tmp/seedres
git -C /repo worktree prune
git -C /repo worktree add --detach $wt HEAD >/dev/null 2>&1 || { echo "worktree failed"; exit 9; }
( cd $wt && git apply $seeddir/patch.diff ) || { echo "patch does not apply"; git -C /repo worktree remove --force $wt; exit 9; }
log=/tmp/seedres/${s}_${p}_${t}.log
cd $here
VERIF_REPO=$wt VERIF_EVIDENCE_DIR=/tmp/seedrun/ev_${s}_${p}_${t}_$$ VERIF_ONLY_PKG=$only ./check $p --tier $t > $log 2>&1; rc=$?
git -C /repo worktree remove --force $wt
rm -rf /tmp/seedrun/ev_${s}_${p}_${t}_$$
echo "seed=$s property=$p tier=$t only=$only exit=$rc"; grep -a "VIOLATION\|INCONCLUSIVE\|tier=\|harness=" $log | cut -c1-300 | head -12
python3 - "$s" "$p" "$t" "$rc" "$log" "$only" <<'PY'
import json, sys, re
s, p, t, rc, log, only = sys.argv[1:7]
lines = [l.rstrip()[:400] for l in open(log, errors="replace") if re.search(r"VIOLATION|INCONCLUSIVE|tier=|harness=", l)]
entry = {"check": "./check %s --tier %s" % (p, t) + (" (VERIF_ONLY_PKG=%s)" % only if only else ""), "exit": int(rc),
         "caught": int(rc) == 1, "output": lines[:8], "how": "seed applied in a scratch worktree of /repo HEAD (VERIF_REPO), checks from a snapshot of /verif"}
json.dump({"seed": s, "entry": entry}, open("/tmp/seedres/%s_%s_%s.json" % (s, p, t), "w"), indent=1)
PY
