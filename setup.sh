#!/bin/sh
# Builds the engine offline from files on disk only.
set -e
cd "$(dirname "$0")/engine"
export GOFLAGS=-mod=mod GOPROXY=off GOSUMDB=off GOTOOLCHAIN=local
mkdir -p bin
go build -o bin/gosym ./cmd/gosym
echo "gosym built"
